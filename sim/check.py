#!/venv/bin/python
"""Command-line entry point.

  check.py <ID> --tier quick|thorough        run the property's check
  check.py <ID> --replay <file>              re-execute a replay file
  check.py selftest [reference|determinism|fidelity|sensitivity|evidence] ...
"""
import argparse
import os
import sys

ROOT = os.path.dirname(os.path.dirname(os.path.abspath(__file__)))
if ROOT not in sys.path:
    sys.path.insert(0, ROOT)

if os.environ.get("PYTHONHASHSEED") is None:
    # pin hash randomisation so that even accidental set-iteration would be repeatable
    os.environ["PYTHONHASHSEED"] = "0"
    os.execv(sys.executable, [sys.executable] + sys.argv)


def main() -> int:
    ap = argparse.ArgumentParser()
    ap.add_argument("target")
    ap.add_argument("rest", nargs="*")
    ap.add_argument("--tier", default=os.environ.get("VERIF_TIER") or "quick", choices=["quick", "thorough"])
    ap.add_argument("--replay")
    ap.add_argument("--jobs", type=int, default=int(os.environ.get("VERIF_JOBS", "16")))
    args = ap.parse_args()
    tier = os.environ.get("VERIF_TIER") or args.tier
    seed = int(os.environ.get("VERIF_SEED", "0"))
    if args.target == "selftest":
        from sim import selftest
        return selftest.main(args.rest, seed, args.jobs)
    from sim import runner
    if args.replay:
        return runner.replay(args.target.upper(), args.replay)
    return runner.run_check(args.target.upper(), tier, seed, args.jobs)


if __name__ == "__main__":
    sys.exit(main())
