"""One simulated world: loop + network + clocks + agents + real puresnmp clients."""
from __future__ import annotations

import asyncio
from typing import Any, Dict, List, Optional, Tuple

from . import env

env.setup()

import puresnmp.util as _putil  # noqa: E402
from puresnmp import Client, PyWrapper  # noqa: E402
from puresnmp.credentials import V1, V2C, V3, Auth, Priv  # noqa: E402
from puresnmp.pdu import EndOfMibView, NoSuchInstance, NoSuchObject  # noqa: E402
from puresnmp.transport import send_udp  # noqa: E402
from puresnmp.types import Counter, Counter64, Gauge, IpAddress, Opaque, TimeTicks  # noqa: E402
from x690.types import Integer, Null, ObjectIdentifier, OctetString  # noqa: E402

from . import refsnmp as S  # noqa: E402
from .agent import RefAgent, User  # noqa: E402
from .loop import EventCapExceeded, SimDeadlock, SimLoop, SimNetwork  # noqa: E402

AGENT_ADDR = ("10.0.0.2", 161)

_KIND_BY_TYPE = {
    Integer: "int", OctetString: "str", Null: "null", ObjectIdentifier: "oid",
    IpAddress: "ip", Counter: "c32", Gauge: "g32", TimeTicks: "tt", Opaque: "opaque",
    Counter64: "c64", NoSuchObject: "nso", NoSuchInstance: "nsi", EndOfMibView: "eom",
}
_TYPE_BY_KIND = {v: k for k, v in _KIND_BY_TYPE.items()}


def to_ref(val: Any) -> S.Value:
    """puresnmp/x690 value object -> reference (kind, value); ('?', repr) if unknown."""
    kind = _KIND_BY_TYPE.get(type(val))
    if kind is None:
        return ("?", "%s:%r" % (type(val).__name__, val))
    v = val.value
    if kind == "oid":
        return (kind, tuple(int(x) for x in v.split(".")) if v else ())
    if kind == "ip":
        return (kind, v.packed)
    if kind in ("null", "nso", "nsi", "eom"):
        return (kind, None)
    if kind in ("str", "opaque"):
        return (kind, bytes(v))
    return (kind, v)


def from_ref(val: S.Value) -> Any:
    kind, v = val
    cls = _TYPE_BY_KIND[kind]
    if kind == "oid":
        return ObjectIdentifier(S.oid_str(v))
    if kind == "ip":
        from ipaddress import IPv4Address
        return IpAddress(IPv4Address(bytes(v)))
    if kind in ("null", "nso", "nsi", "eom"):
        return cls()
    return cls(v)


def OID(t: tuple) -> ObjectIdentifier:
    return ObjectIdentifier(S.oid_str(t))


def oid_t(o: Any) -> tuple:
    v = o.value if hasattr(o, "value") else str(o)
    return tuple(int(x) for x in v.strip(".").split(".")) if v else ()


class WallClock:
    """The client's wall clock (what puresnmp.util.time() returns)."""

    def __init__(self, loop: SimLoop, cfg: Optional[dict] = None) -> None:
        cfg = cfg or {}
        self.loop = loop
        self.mode = cfg.get("mode", "tied")
        self.epoch = float(cfg.get("epoch", 1_700_000_000))
        self.step = float(cfg.get("step", 1.0))
        self.jumps: Dict[int, float] = {int(k): float(v) for k, v in cfg.get("jumps", {}).items()} \
            if isinstance(cfg.get("jumps", {}), dict) else {int(k): float(v) for k, v in cfg.get("jumps", [])}
        self.offset = 0.0
        self.reads = 0
        self.last = self.epoch

    def read(self) -> float:
        i = self.reads
        self.reads += 1
        if self.mode == "constant":
            val = self.epoch
        elif self.mode == "stepping":
            val = self.epoch + i * self.step
        else:
            if i in self.jumps:
                self.offset += self.jumps[i]
            val = self.epoch + self.offset + self.loop.time()
        self.last = val
        return val


class Recorder:
    """Pass-through sender seam: records what the client hands to the transport."""

    def __init__(self, world: "World") -> None:
        self.world = world
        self.calls: List[dict] = []

    async def __call__(self, endpoint: Any, packet: bytes, timeout: int = 1,
                       loop: Any = None, retries: int = 10) -> bytes:
        rec = {"endpoint": (str(endpoint.ip), endpoint.port), "packet": bytes(packet),
               "timeout": timeout, "retries": retries, "t": self.world.loop.time(),
               "resp": None, "exc": None}
        self.calls.append(rec)
        try:
            resp = await send_udp(endpoint, packet, timeout=timeout, retries=retries)
        except BaseException as exc:
            rec["exc"] = type(exc).__name__
            raise
        rec["resp"] = resp
        return resp


class BudgetExceeded(BaseException):
    """The counted-call budget of World.run_budgeted was exhausted."""


class World:
    calls_used = 0

    def __init__(self, faults: Optional[dict] = None, clock: Optional[dict] = None,
                 event_cap: int = 400_000) -> None:
        self.loop = SimLoop(event_cap=event_cap)
        self.net = SimNetwork(self.loop, faults)
        self.clock = WallClock(self.loop, clock)
        _putil.time = self.clock.read
        # every other reading of the wall clock by the code under test (time.time()) sees the simulated clock too
        import time as _time
        if not hasattr(World, "_real_time"):
            World._real_time = _time.time
        _time.time = self.clock.read
        # seam for code that measures elapsed time (USM engine-time estimate): virtual monotonic clock
        import puresnmp_plugins.security.usm as _usm
        if hasattr(_usm, "monotonic"):
            _usm.monotonic = self.loop.time
        self.agents: List[RefAgent] = []
        self.recorders: List[Recorder] = []
        try:
            import puresnmp_plugins.priv.verifstream as vs
            vs.reset()
        except ImportError:
            pass

    def add_agent(self, agent: RefAgent, addr: Tuple[str, int] = AGENT_ADDR) -> RefAgent:
        self.net.add_agent(addr, agent)
        self.agents.append(agent)
        return agent

    def client(self, proto: dict, addr: Tuple[str, int] = AGENT_ADDR, timeout: int = 2,
               retries: int = 3, **kw: Any) -> Client:
        rec = Recorder(self)
        self.recorders.append(rec)
        c = Client(addr[0], make_credentials(proto), port=addr[1], sender=rec, **kw)
        c.configure(timeout=timeout, retries=retries)
        c._verif_recorder = rec  # type: ignore[attr-defined]
        return c

    def run(self, coro: Any) -> Any:
        return self.loop.run_until_complete(coro)

    def run_budgeted(self, coro: Any, budget: int) -> Any:
        """Run *coro* while counting Python function calls; raise BudgetExceeded (a BaseException)
        at *budget*.  A spin inside the code under test thereby becomes a verdict at a fixed step,
        identically on every replay (no wall clock involved)."""
        import sys
        count = [0]

        def prof(frame: Any, event: str, arg: Any) -> None:
            if event == "call":
                count[0] += 1
                if count[0] > budget:
                    sys.setprofile(None)
                    raise BudgetExceeded(count[0])
        sys.setprofile(prof)
        try:
            return self.loop.run_until_complete(coro)
        finally:
            sys.setprofile(None)
            self.calls_used = count[0]

    def settle(self) -> None:
        """Let close/abort callbacks run (control 'back in the event loop')."""
        async def _idle() -> None:
            for _ in range(4):
                await asyncio.sleep(0)
        self.loop.run_until_complete(_idle())

    def close(self) -> None:
        import time as _time
        _time.time = World._real_time
        try:
            self.loop.close()
        except Exception:
            pass


def make_credentials(proto: dict) -> Any:
    v = proto["version"]
    if v == "v1":
        return V1(proto.get("community", "public"))
    if v == "v2c":
        return V2C(proto.get("community", "public"))
    auth = priv = None
    if proto.get("auth"):
        auth = Auth(proto["auth_pass"], proto["auth"])
    if proto.get("priv"):
        priv = Priv(proto["priv_pass"], proto["priv"])
    return V3(proto["user"], auth, priv)


def agent_user(proto: dict) -> User:
    return User(proto["user"].encode("ascii"), proto.get("auth"), proto.get("auth_pass", b""),
                proto.get("priv"), proto.get("priv_pass", b""))


def agent_for(proto: dict, mib: Dict[tuple, S.Value], **kw: Any) -> RefAgent:
    """Reference agent configured to accept exactly the given credentials."""
    if proto["version"] in ("v1", "v2c"):
        comm = proto.get("community", "public").encode("ascii")
        return RefAgent(mib, communities={0: {comm}, 1: {comm}}, **kw)
    return RefAgent(mib, communities={}, users=[agent_user(proto)], **kw)


PASSWORDS = [b"maplesyrup", b"authpass-0123456789", b"p", b"0123456789abcdef0123456789abcdef0123456789abcdef0123456789abcdefX"]


def gen_proto(rng: Any, versions: Tuple[str, ...] = ("v2c", "v3"), levels: Tuple[int, ...] = (0, 1, 3)) -> dict:
    v = rng.choice(versions)
    if v in ("v1", "v2c"):
        return {"version": v, "community": rng.choice(["public", "private", "c0mm-x"])}
    level = rng.choice(levels)
    p: Dict[str, Any] = {"version": "v3", "user": rng.choice(["alice", "bob", "u"]), "level": level}
    if level & 1:
        p["auth"] = rng.choice(["md5", "sha1"])
        p["auth_pass"] = rng.choice(PASSWORDS)
    if level & 2:
        p["priv"] = rng.choice(["verifstream", "verifstream2"])
        p["priv_pass"] = rng.choice(PASSWORDS)
    return p


async def collect(agen: Any) -> list:
    out = []
    async for item in agen:
        out.append(item)
    return out


def classify_exc(exc: BaseException) -> str:
    return type(exc).__name__


# ---------------------------------------------------------------------------------------
# deterministic work metering (C20): counts Python function entries, calls (C functions included)
# and jumps (every loop iteration) of everything but the harness itself, through sys.monitoring.

class WorkBudgetExceeded(BaseException):
    """Raised inside the code under test when the counted-work budget is exhausted."""


class Meter:
    _installed = False
    count = 0
    budget = 1 << 62
    active = False
    tripped = False     # the budget was exhausted since start() - authoritative even if the exception was swallowed

    @classmethod
    def install(cls) -> None:
        if cls._installed:
            return
        import sys
        mon = sys.monitoring
        tool = mon.PROFILER_ID
        ev = mon.events
        skip = (env.VERIF_ROOT + "/",)
        import os as _os
        asyncio_dir = _os.path.dirname(asyncio.__file__) + "/"

        def on_event(code: Any, *args: Any) -> Any:
            if code.co_filename.startswith(skip):
                return mon.DISABLE
            cls.count += 1
            if cls.count > cls.budget:
                # Keep raising on every further event until stop(): asyncio's Task / Handle wrappers swallow the
                # exception and carry on, and a second spin in the same run must not escape the budget.  The event
                # loop's own code is spared, so that its cleanup (finally blocks, running-loop bookkeeping) completes.
                if cls.tripped and code.co_filename.startswith(asyncio_dir):
                    return None
                cls.tripped = True
                raise WorkBudgetExceeded(cls.count)
            return None

        mon.use_tool_id(tool, "verif-meter")
        for e in (ev.PY_START, ev.JUMP, ev.CALL):
            mon.register_callback(tool, e, on_event)
        cls._installed = True

    @classmethod
    def start(cls, budget: int) -> None:
        import sys
        cls.install()
        cls.count = 0
        cls.budget = budget
        cls.active = True
        cls.tripped = False
        mon = sys.monitoring
        mon.set_events(mon.PROFILER_ID, mon.events.PY_START | mon.events.JUMP | mon.events.CALL)

    @classmethod
    def stop(cls) -> int:
        import sys
        mon = sys.monitoring
        if cls.active:
            mon.set_events(mon.PROFILER_ID, 0)
            cls.active = False
        cls.budget = 1 << 62
        return cls.count


# ---------------------------------------------------------------------------------------
# observation of x690's TLV walk (known finding C20/C19: indefinite length without end-of-contents)

X690_WATCH = {"indef_no_eoc": 0}


def install_x690_watch() -> None:
    """Wrap x690.util.get_value_slice once per process.  The wrapper never alters the result; it notes when
    the walk meets a length octet 0x80 with no 00 00 at or after it (the input condition under which
    x690 1.0 returns 'next TLV at index 1' and Sequence.decode_raw never terminates)."""
    import x690.types as xt
    import x690.util as xu
    if getattr(xu.get_value_slice, "_verif_orig", None) is not None:
        return
    orig = xu.get_value_slice

    def get_value_slice(data: bytes, index: int = 0) -> Any:
        if index + 1 < len(data) and data[index + 1] == 0x80 and data.find(b"\x00\x00", index) == -1:
            X690_WATCH["indef_no_eoc"] += 1
        return orig(data, index)
    get_value_slice._verif_orig = orig  # type: ignore[attr-defined]
    xt.get_value_slice = get_value_slice
    xu.get_value_slice = get_value_slice
