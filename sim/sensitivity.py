"""Sensitivity self-test: every kept seeded defect (/verif/seeded/<name>/) is applied to a scratch copy of
the working tree's src and the check recorded in its meta.json as catching it must report a VIOLATION.

  check.py selftest sensitivity [name-prefix ...]

With VERIF_SENS_CATCHERS=C12,C14 only the entries whose recorded first catcher is one of the listed checks are run.
"""
from __future__ import annotations

import json
import os
import subprocess
import sys
from typing import List

ROOT = os.path.dirname(os.path.dirname(os.path.abspath(__file__)))


def main(args: List[str], seed: int, jobs: int) -> int:
    base = os.path.join(ROOT, "seeded")
    names = sorted(n for n in os.listdir(base) if os.path.isdir(os.path.join(base, n)))
    if args:
        names = [n for n in names if any(n.startswith(a) for a in args)]
    fails = 0
    only = [c for c in os.environ.get("VERIF_SENS_CATCHERS", "").split(",") if c]
    for n in names:
        meta = json.load(open(os.path.join(base, n, "meta.json")))
        expected = meta.get("caught_by") or []
        if only and (not expected or expected[0] not in only):
            continue
        if not expected:
            print("sensitivity %-10s (recorded as not caught: %s)" % (n, meta.get("why_not_caught", "?")[:80]))
            continue
        pid = expected[0]
        p = subprocess.run([sys.executable, os.path.join(ROOT, "tools", "run_mutant.py"),
                            os.path.join(base, n, "patch.diff"), pid, "--seed", str(seed)],
                           capture_output=True, text=True)
        ok = p.returncode == 0 and "CAUGHT-BY: %s" % pid in p.stdout
        print("sensitivity %-10s %s by %s" % (n, "caught" if ok else "MISSED", pid), flush=True)
        if not ok:
            fails += 1
            print(p.stdout[-600:])
    print("selftest sensitivity: %s" % ("ok" if not fails else "%d seeded defect(s) no longer caught" % fails))
    return 1 if fails else 0
