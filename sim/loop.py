"""Virtual-time asyncio event loop, simulated datagram transport and network.

One SimLoop is one simulated world: it owns the only clock every timer reads,
the only "sockets" the code under test can open (create_datagram_endpoint) and
the fabric that carries datagrams between them and the reference agents.
Nothing here reads a real clock, sleeps, or opens a file descriptor.
"""
from __future__ import annotations

import asyncio
import asyncio.base_events
import hashlib
import heapq
from typing import Any, Callable, Dict, List, Optional, Tuple


import contextvars

#: identifies the workload operation on whose behalf a socket is opened (set by the harness
#: in each operation's task; inherited by everything that task awaits)
OP_TAG: "contextvars.ContextVar[Any]" = contextvars.ContextVar("verif_op_tag", default=None)


class SimDeadlock(Exception):
    """Every task is blocked and no timer is pending."""


class EventCapExceeded(BaseException):
    """The per-run cap on loop iterations was hit (BaseException on purpose)."""


class _FakeSelector:
    def __init__(self, loop: "SimLoop") -> None:
        self.loop = loop

    def select(self, timeout: Optional[float] = None) -> list:
        loop = self.loop
        if timeout is None:
            raise SimDeadlock("no runnable task and no pending timer")
        if timeout > 0 and loop._scheduled:
            when = loop._scheduled[0]._when
            if when > loop._now:
                loop._now = when
                loop.clock_jumps += 1
        return []

    def close(self) -> None:
        pass


class SimLoop(asyncio.base_events.BaseEventLoop):
    """BaseEventLoop with a virtual clock and simulated UDP endpoints."""

    def __init__(self, event_cap: int = 400_000) -> None:
        super().__init__()
        self._now = 0.0
        self._selector = _FakeSelector(self)
        self._clock_resolution = 1e-9
        self.clock_jumps = 0
        self.iterations = 0
        self.event_cap = event_cap
        self.exceptions: List[dict] = []
        self.net: Optional["SimNetwork"] = None
        self.set_exception_handler(self._record_exception)

    # -- clock ---------------------------------------------------------
    def time(self) -> float:
        return self._now

    # -- BaseEventLoop plumbing ---------------------------------------
    def _process_events(self, event_list: list) -> None:
        pass

    def _write_to_self(self) -> None:
        pass

    def _run_once(self) -> None:
        self.iterations += 1
        if self.iterations > self.event_cap:
            raise EventCapExceeded(self.iterations)
        super()._run_once()

    def _record_exception(self, loop: Any, context: dict) -> None:
        exc = context.get("exception")
        self.exceptions.append(
            {
                "message": context.get("message", ""),
                "exc_type": type(exc).__name__ if exc is not None else None,
                "exc": exc,
            }
        )

    # -- sockets -------------------------------------------------------
    async def create_datagram_endpoint(  # type: ignore[override]
        self,
        protocol_factory: Callable[[], Any],
        local_addr: Optional[Tuple[str, int]] = None,
        remote_addr: Optional[Tuple[str, int]] = None,
        **kwargs: Any,
    ) -> Tuple["SimDatagramTransport", Any]:
        if self.net is None:
            raise RuntimeError("SimLoop has no network attached")
        if local_addr and remote_addr and (":" in str(local_addr[0])) != (":" in str(remote_addr[0])):
            # asyncio pairs the getaddrinfo results of both ends by address family and finds no pair
            raise ValueError("can not get address information")
        if self.net.endpoint_delay is not None:
            d = self.net.endpoint_delay()
            if d:
                await asyncio.sleep(d)     # socket creation takes time (busy host, slow resolver)
        protocol = protocol_factory()
        waiter = self.create_future()
        transport = SimDatagramTransport(
            self, self.net, protocol, local_addr, remote_addr
        )
        self.call_soon(protocol.connection_made, transport)
        self.call_soon(_set_result_unless_cancelled, waiter, None)
        try:
            await waiter
        except BaseException:
            transport.close()
            raise
        return transport, protocol


def _set_result_unless_cancelled(fut: "asyncio.Future[Any]", result: Any) -> None:
    if fut.cancelled():
        return
    fut.set_result(result)


class SimDatagramTransport(asyncio.DatagramTransport):
    """Reproduces the observable contract of _SelectorDatagramTransport."""

    def __init__(
        self,
        loop: SimLoop,
        net: "SimNetwork",
        protocol: Any,
        local_addr: Optional[Tuple[str, int]],
        remote_addr: Optional[Tuple[str, int]],
    ) -> None:
        super().__init__()
        self._loop = loop
        self._net = net
        self._protocol = protocol
        self._remote = remote_addr
        self._closing = False
        self._conn_lost = 0
        self.sock_open = True  # until _call_connection_lost has run
        self.sent: List[Tuple[float, bytes]] = []
        self._buffer: List[Tuple[bytes, tuple]] = []   # datagrams the OS refused with EAGAIN (send queue full)
        self.close_calls = 0
        self.abort_calls = 0
        if local_addr is not None:
            self._local = (local_addr[0], local_addr[1])
        else:
            self._local = (net.client_ip, net.alloc_port())
        self.op = OP_TAG.get()
        self.tag = net.next_tag(self.op)
        self.sock_id = net.register_socket(self)

    # transport API ---------------------------------------------------
    def get_extra_info(self, name: str, default: Any = None) -> Any:
        if name == "peername":
            return self._remote if self._remote is not None else default
        if name == "sockname":
            return self._local
        return default

    def is_closing(self) -> bool:
        return self._closing

    def sendto(self, data: bytes, addr: Any = None) -> None:
        if not isinstance(data, (bytes, bytearray, memoryview)):
            raise TypeError("data argument must be a bytes-like object")
        if not data:
            return
        if self._remote is not None and addr not in (None, self._remote):
            raise ValueError("Invalid address")
        if self._conn_lost and self._remote:
            self._conn_lost += 1
            return
        dst = addr if addr is not None else self._remote
        if dst is None:
            raise ValueError("no destination")
        self.sent.append((self._loop.time(), bytes(data)))
        gate = self._net.send_gate
        until = gate(self, bytes(data)) if gate is not None else None
        if self._buffer or until is not None:
            # like _SelectorDatagramTransport: the datagram waits in the transport's buffer until the socket is writable
            self._buffer.append((bytes(data), (dst[0], dst[1])))
            self._net.count("fault_send_blocked")
            self._net.log("send_blocked", self.sock_id)
            if until is not None:
                self._loop.call_at(until, self._sendto_ready)
            return
        self._net.send(self, self._local, (dst[0], dst[1]), bytes(data))

    def close(self) -> None:
        self.close_calls += 1
        if self._closing:
            return
        self._closing = True
        self._net.log("sock_close", self.sock_id)
        if self._buffer:
            return          # asyncio keeps the socket until the buffer has been flushed (_sendto_ready)
        self._conn_lost += 1
        self._loop.call_soon(self._call_connection_lost, None)

    def _sendto_ready(self) -> None:
        """The socket became writable: flush what was buffered (a no-op after abort())."""
        if self._conn_lost and not self._closing:
            return
        buf, self._buffer = self._buffer, []
        for data, dst in buf:
            self._net.send(self, self._local, dst, data)
        if self._closing and buf and self.sock_open:
            self._conn_lost += 1
            self._call_connection_lost(None)

    def abort(self) -> None:
        self.abort_calls += 1
        self._force_close(None)

    def _force_close(self, exc: Optional[BaseException]) -> None:
        self._buffer = []       # abort() drops what was not yet written
        if self._conn_lost:
            return
        if not self._closing:
            self._closing = True
            self._net.log("sock_abort", self.sock_id)
        self._conn_lost += 1
        self._loop.call_soon(self._call_connection_lost, exc)

    def _call_connection_lost(self, exc: Optional[BaseException]) -> None:
        try:
            self._protocol.connection_lost(exc)
        finally:
            self.sock_open = False
            self._net.unregister_socket(self)

    # called by the network (inside a loop callback) ---------------------
    def _deliver(self, data: bytes, addr: Tuple[str, int]) -> None:
        if self._conn_lost or self._closing:
            self._net.count("late_after_close")
            return
        self._protocol.datagram_received(data, addr)

    def _icmp_error(self, exc: OSError) -> None:
        if self._conn_lost or self._closing:
            return
        self._protocol.error_received(exc)

    def _fatal_error(self, exc: BaseException) -> None:
        self._force_close(exc)


def keyed(subseed: int, *key: Any) -> int:
    """A 64-bit value that is a pure function of the plan's subseed and key."""
    h = hashlib.blake2b(repr((subseed,) + key).encode(), digest_size=8)
    return int.from_bytes(h.digest(), "big")


def keyed_unit(subseed: int, *key: Any) -> float:
    return keyed(subseed, *key) / 2.0**64


TICK = 1.0 / 1024.0


class SimNetwork:
    """Datagram fabric: endpoints, latency, faults, event log.

    ``faults`` (from the plan) is a dict:
      subseed: int
      rates: {kind: probability}   kinds: drop, dup, delay, late, icmp, fatal, corrupt
      explicit: [[direction, index, kind, param], ...]  (fires regardless of rates)
      latency: [lo_ticks, hi_ticks]
      timeout_hint: seconds (for the 'late' kind)
    direction: "c2a" (client to agent) or "a2c".
    Per-datagram decisions are keyed by (direction, n-th datagram in that direction).
    """

    def __init__(self, loop: SimLoop, faults: Optional[dict] = None) -> None:
        self.loop = loop
        loop.net = self
        self.client_ip = "10.0.0.1"
        self._next_port = 40000
        self._next_sock = 0
        self.sockets: Dict[int, SimDatagramTransport] = {}
        self.all_sockets: List[SimDatagramTransport] = []
        self.bound: Dict[Tuple[str, int], Any] = {}
        self.agents: Dict[Tuple[str, int], Any] = {}
        self.events: List[tuple] = []
        self.seq = 0
        self.counters: Dict[str, int] = {}
        self.faults = faults or {}
        self.subseed = int(self.faults.get("subseed", 0))
        self.rates = dict(self.faults.get("rates", {}))
        self.explicit: Dict[Tuple[str, int], List[tuple]] = {}
        for d, i, kind, param in self.faults.get("explicit", []):
            self.explicit.setdefault((d, i), []).append((kind, param))
        lat = self.faults.get("latency", [1, 1])
        self.lat_lo, self.lat_hi = int(lat[0]), int(lat[1])
        self.timeout_hint = float(self.faults.get("timeout_hint", 1.0))
        self.dir_index = {"c2a": 0, "a2c": 0}
        self.fired: List[list] = []  # materialised faults, for minimisation
        self.rewriter: Optional[Callable[[str, int, bytes], Optional[bytes]]] = None
        self.latency_fn: Optional[Callable[[str, int, bytes], Optional[int]]] = None
        self.tap: Optional[Callable[[str, int, bytes, tuple, tuple], None]] = None
        self.partition_until = -1.0
        self._tag_counts: Dict[Any, int] = {}
        self.tag_latency: Optional[Callable[[str, tuple], Optional[int]]] = None
        #: send_gate(transport, data) -> None (the OS accepts the datagram) or the virtual instant until which the
        #: socket's send queue is full (EAGAIN): the transport buffers the datagram until then
        self.send_gate: Optional[Callable[[Any, bytes], Optional[float]]] = None
        #: endpoint_delay() -> virtual seconds the creation of the next datagram endpoint takes
        self.endpoint_delay: Optional[Callable[[], float]] = None

    # bookkeeping --------------------------------------------------------
    def log(self, kind: str, *details: Any) -> None:
        self.seq += 1
        self.events.append((self.loop.time(), self.seq, kind) + details)

    def count(self, name: str, n: int = 1) -> None:
        self.counters[name] = self.counters.get(name, 0) + n

    def next_tag(self, op: Any) -> Optional[tuple]:
        """(operation, n-th socket opened on behalf of that operation)"""
        if op is None:
            return None
        n = self._tag_counts.get(op, 0)
        self._tag_counts[op] = n + 1
        return (op, n)

    def alloc_port(self) -> int:
        self._next_port += 1
        return self._next_port

    def register_socket(self, tr: SimDatagramTransport) -> int:
        self._next_sock += 1
        sid = self._next_sock
        self.sockets[sid] = tr
        self.all_sockets.append(tr)
        self.bound[tr._local] = tr
        self.log("sock_open", sid, tr._local[1])
        self.count("sockets_opened")
        return sid

    def unregister_socket(self, tr: SimDatagramTransport) -> None:
        self.sockets.pop(tr.sock_id, None)
        if self.bound.get(tr._local) is tr:
            del self.bound[tr._local]
        self.log("sock_closed", tr.sock_id)

    def open_sockets(self) -> List[int]:
        return sorted(sid for sid, tr in self.sockets.items() if tr.sock_open)

    def add_agent(self, addr: Tuple[str, int], agent: Any) -> None:
        self.agents[addr] = agent

    def digest(self) -> str:
        h = hashlib.sha256()
        for ev in self.events:
            h.update(repr(ev).encode())
        return h.hexdigest()

    # fault decisions --------------------------------------------------
    def _decide(self, direction: str, idx: int) -> List[tuple]:
        out = list(self.explicit.get((direction, idx), []))
        if out:
            return out
        for kind in ("drop", "dup", "delay", "late", "icmp", "fatal", "corrupt"):
            rate = self.rates.get(kind, 0.0)
            if rate and keyed_unit(self.subseed, "f", direction, idx, kind) < rate:
                if kind in ("icmp", "fatal") and direction != "c2a":
                    continue
                param = keyed(self.subseed, "p", direction, idx, kind) % 1_000_000
                out.append((kind, param))
                break
        return out

    def _latency(self, direction: str, idx: int, data: bytes, tag: Optional[tuple] = None) -> int:
        if self.tag_latency is not None and tag is not None:
            v = self.tag_latency(direction, tag)
            if v is not None:
                return max(1, int(v))
        if self.latency_fn is not None:
            v = self.latency_fn(direction, idx, data)
            if v is not None:
                return max(1, int(v))
        if self.lat_hi <= self.lat_lo:
            return max(1, self.lat_lo)
        span = self.lat_hi - self.lat_lo + 1
        return max(1, self.lat_lo + keyed(self.subseed, "l", direction, idx) % span)

    # sending ------------------------------------------------------------
    def send(self, sock: Optional[SimDatagramTransport], src: tuple, dst: tuple,
             data: bytes, direction: str = "c2a") -> None:
        idx = self.dir_index[direction]
        self.dir_index[direction] = idx + 1
        self.count("dgram_" + direction)
        self.log("send", direction, idx, src[1], dst[1], len(data),
                 hashlib.blake2b(data, digest_size=6).hexdigest())
        if self.tap is not None:
            self.tap(direction, idx, data, src, dst)
        if self.rewriter is not None:
            new = self.rewriter(direction, idx, data)
            if new is not None and new != data:
                self.count("fault_rewrite")
                self.log("rewrite", direction, idx, len(new))
                data = new
        if self.loop.time() < self.partition_until:
            self.count("fault_partition_drop")
            self.log("partition_drop", direction, idx)
            return
        if sock is not None:
            tag = sock.tag
        else:
            peer = self.bound.get(dst)
            tag = getattr(peer, "tag", None)
        if tag is not None:
            self.log("tag", direction, idx, tag)
        ticks = self._latency(direction, idx, data, tag)
        deliveries = [(ticks, data)]
        for kind, param in self._decide(direction, idx):
            self.count("fault_" + kind)
            self.fired.append([direction, idx, kind, param])
            self.log("fault", direction, idx, kind, param)
            if kind == "drop":
                deliveries = []
            elif kind == "dup":
                deliveries = deliveries + [(ticks + 1 + param % 64, data)]
            elif kind == "delay":
                deliveries = [(ticks + 1 + param % 4096, data)]
            elif kind == "late":
                late = int(self.timeout_hint * 1024) + 1 + param % 32
                deliveries = [(late, data)]
            elif kind == "corrupt":
                deliveries = [(t, corrupt_bytes(d, param)) for t, d in deliveries]
            elif kind == "icmp":
                deliveries = []
                if sock is not None:
                    self.loop.call_later(
                        ticks * TICK, sock._icmp_error,
                        ConnectionRefusedError(111, "Connection refused"))
            elif kind == "fatal":
                deliveries = []
                if sock is not None:
                    self.loop.call_later(
                        ticks * TICK, sock._fatal_error,
                        OSError(101, "Network is unreachable"))
        for t, d in deliveries:
            self.loop.call_later(t * TICK, self._arrive, direction, idx, src, dst, d)

    def _arrive(self, direction: str, idx: int, src: tuple, dst: tuple, data: bytes) -> None:
        self.log("arrive", direction, idx, dst[1], len(data))
        agent = self.agents.get(dst)
        if agent is not None:
            for delay_ticks, resp in agent.handle(data, src, self.loop.time()):
                if delay_ticks:
                    self.loop.call_later(delay_ticks * TICK, self.send, None, dst, src, resp, "a2c")
                else:
                    self.send(None, dst, src, resp, "a2c")
            return
        tr = self.bound.get(dst) or self.bound.get(("0.0.0.0", dst[1]))
        if tr is None or not tr.sock_open:
            self.count("undeliverable")
            self.log("undeliverable", direction, idx)
            return
        # asyncio reports IPv6 peers as (host, port, flowinfo, scope_id)
        tr._deliver(data, src if ":" not in str(src[0]) or len(src) != 2 else (src[0], src[1], 0, 0))

    def inject(self, src: tuple, dst: tuple, data: bytes, delay_ticks: int = 1,
               direction: str = "a2c") -> None:
        """Put a datagram on the wire from outside (trap emitters, attackers)."""
        self.loop.call_later(delay_ticks * TICK, self.send, None, src, dst, data, direction)


def corrupt_bytes(data: bytes, param: int) -> bytes:
    if not data:
        return data
    mode = param % 4
    pos = (param // 4) % len(data)
    b = bytearray(data)
    if mode == 0:
        b[pos] ^= 1 << ((param // 7) % 8)
    elif mode == 1:
        b[pos] = (param // 11) % 256
    elif mode == 2:
        b = b[:pos]
    else:
        b.extend(bytes([(param // 13) % 256]) * (1 + param % 5))
    return bytes(b)


def run_sim(loop: SimLoop, coro: Any) -> Any:
    """Run *coro* to completion on *loop*, then let pending callbacks drain."""
    asyncio.set_event_loop(None)
    try:
        return loop.run_until_complete(coro)
    finally:
        pass


def drain(loop: SimLoop, max_iter: int = 50) -> None:
    """Give the loop a few more iterations (no clock jump past pending timers needed)."""

    async def _idle() -> None:
        for _ in range(3):
            await asyncio.sleep(0)

    loop.run_until_complete(_idle())
