"""Operation vocabulary shared by several properties: run an API operation on the real client,
normalise its result to reference values, and compute the model answer from the MIB."""
from __future__ import annotations

import bisect
from datetime import timedelta
from ipaddress import IPv4Address
from typing import Any, Dict, List, Optional, Tuple

from . import gen
from . import refsnmp as S
from .world import OID, PyWrapper, collect, from_ref, oid_t, to_ref

RAISES = "raises"


def norm_table(rows: List[dict]) -> List[Tuple[str, List[Tuple[str, Any]]]]:
    out = []
    for row in rows:
        cells = sorted((k, (to_ref(v) if k != "0" and not isinstance(v, (str, int, bytes, type(None), timedelta, IPv4Address)) else v))
                       for k, v in row.items())
        out.append((row.get("0"), cells))
    return sorted(out, key=lambda r: (str(r[0]), repr(r[1])))


async def do_op(client: Any, op: dict, args: Optional[dict] = None) -> Any:
    """Run one raw-API operation; result in reference representation.  With *args* (a dict owned by the caller) the argument
    containers (OID lists, the SET mapping) are built once per distinct operation and the SAME objects are handed to the
    client whenever that operation is repeated - as a poller with constant argument lists does."""
    k = op["op"]

    def keep(name: str, build: Any) -> Any:
        if args is None:
            return build()
        key = (k, name, repr(sorted((kk, vv) for kk, vv in op.items() if kk != "op")))
        if key not in args:
            args[key] = build()
        return args[key]
    if k == "get":
        return to_ref(await client.get(OID(op["oid"])))
    if k == "multiget":
        return [to_ref(v) for v in await client.multiget(keep("oids", lambda: [OID(o) for o in op["oids"]]))]
    if k == "getnext":
        vb = await client.getnext(OID(op["oid"]))
        return (oid_t(vb.oid), to_ref(vb.value))
    if k == "multigetnext":
        return [(oid_t(vb.oid), to_ref(vb.value))
                for vb in await client.multigetnext(keep("oids", lambda: [OID(o) for o in op["oids"]]))]
    if k == "set":
        return to_ref(await client.set(OID(op["oid"]), from_ref(op["val"])))
    if k == "multiset":
        res = await client.multiset(keep("items", lambda: {OID(o): from_ref(v) for o, v in op["items"]}))
        return [(oid_t(o), to_ref(v)) for o, v in res.items()]
    if k == "bulkget":
        res = await client.bulkget(keep("scalars", lambda: [OID(o) for o in op["scalars"]]),
                                   keep("repeaters", lambda: [OID(o) for o in op["repeaters"]]), max_list_size=op["maxrep"])
        return {"scalars": [(oid_t(o), to_ref(v)) for o, v in res.scalars.items()],
                "listing": [(oid_t(o), to_ref(v)) for o, v in res.listing.items()]}
    if k == "walk":
        kw = {"errors": op["errors"]} if "errors" in op else {}
        return [(oid_t(vb.oid), to_ref(vb.value)) for vb in await collect(client.walk(OID(op["root"]), **kw))]
    if k == "multiwalk":
        kw = {"errors": op["errors"]} if "errors" in op else {}
        return [(oid_t(vb.oid), to_ref(vb.value))
                for vb in await collect(client.multiwalk(keep("roots", lambda: [OID(r) for r in op["roots"]]), **kw))]
    if k == "bulkwalk":
        return [(oid_t(vb.oid), to_ref(vb.value))
                for vb in await collect(client.bulkwalk(keep("roots", lambda: [OID(r) for r in op["roots"]]), bulk_size=op["bulk"]))]
    if k == "table":
        return norm_table(await client.table(OID(op["oid"])))
    if k == "bulktable":
        return norm_table(await client.bulktable(OID(op["oid"]), bulk_size=op["bulk"]))
    raise ValueError(k)


async def do_pyop(client: Any, op: dict) -> Any:
    """Run one PyWrapper operation; the raw Python result is returned untouched."""
    # one wrapper per client for the client's whole life (a long-lived application object), not one per call
    py = getattr(client, "_verif_pywrapper", None)
    if py is None:
        py = PyWrapper(client)
        client._verif_pywrapper = py
    k = op["op"]
    s = S.oid_str
    if k == "get":
        return await py.get(s(op["oid"]))
    if k == "multiget":
        return await py.multiget([s(o) for o in op["oids"]])
    if k == "getnext":
        return await py.getnext(s(op["oid"]))
    if k == "set":
        return await py.set(s(op["oid"]), from_ref(op["val"]))
    if k == "multiset":
        return await py.multiset({s(o): from_ref(v) for o, v in op["items"]})
    if k == "bulkget":
        return await py.bulkget([s(o) for o in op["scalars"]], [s(o) for o in op["repeaters"]],
                                max_list_size=op["maxrep"])
    if k == "walk":
        kw = {"errors": op["errors"]} if "errors" in op else {}
        return await collect(py.walk(s(op["root"]), **kw))
    if k == "multiwalk":
        return await collect(py.multiwalk([s(r) for r in op["roots"]]))
    if k == "bulkwalk":
        return await collect(py.bulkwalk([s(r) for r in op["roots"]], bulk_size=op["bulk"]))
    if k == "table":
        return await py.table(s(op["oid"]))
    if k == "bulktable":
        return await py.bulktable(s(op["oid"]), bulk_size=op["bulk"])
    raise ValueError(k)


# ---------------------------------------------------------------------------------------
# model

def successor(keys: List[tuple], oid: tuple) -> Optional[tuple]:
    i = bisect.bisect_right(keys, oid)
    return keys[i] if i < len(keys) else None


def pythonize_ref(val: S.Value) -> Any:
    """Independent pythonisation table (not puresnmp's pythonize())."""
    kind, v = val
    if kind in ("int", "c32", "g32", "c64"):
        return v
    if kind in ("str", "opaque"):
        return bytes(v)
    if kind == "oid":
        return S.oid_str(v)
    if kind == "ip":
        return IPv4Address(bytes(v))
    if kind == "tt":
        return timedelta(microseconds=10_000 * v)
    if kind in ("null", "nso", "nsi", "eom"):
        return None
    raise ValueError(kind)


def table_model(mib_items: List[tuple], entry: tuple) -> List[Tuple[str, List[Tuple[str, Any]]]]:
    """Rows of the conceptual table whose entry OID is *entry* (columns entry.C, index = rest)."""
    rows: Dict[str, Dict[str, Any]] = {}
    for oid, val in mib_items:
        if len(oid) > len(entry) + 1 and oid[:len(entry)] == entry:
            col = str(oid[len(entry)])
            idx = ".".join(str(x) for x in oid[len(entry) + 1:])
            rows.setdefault(idx, {"0": idx})[col] = val
    return sorted(((idx, sorted(r.items())) for idx, r in rows.items()), key=lambda r: (str(r[0]), repr(r[1])))


OP_KINDS_V2 = ["get", "multiget", "getnext", "multigetnext", "set", "multiset", "bulkget"]


def gen_simple_op(rng: Any, mib_keys: List[tuple], version: str, kinds: Optional[List[str]] = None) -> dict:
    kinds = kinds or OP_KINDS_V2
    if version == "v1":
        kinds = [k for k in kinds if k != "bulkget"]
    k = rng.choice(kinds)

    def pick(allow_absent: bool = True) -> tuple:
        r = rng.random()
        if mib_keys and (r < 0.6 or not allow_absent):
            return rng.choice(mib_keys)
        if mib_keys and r < 0.7:
            return mib_keys[-1]  # the end of the view
        if mib_keys and r < 0.85:
            o = rng.choice(mib_keys)
            return o[:-1] + (o[-1] + 1,) if rng.random() < 0.5 else o[:-1]
        return (1, 3, 6, 1, rng.randrange(1, 9), rng.randrange(0, 5), 0)

    if k == "get":
        return {"op": k, "oid": pick()}
    if k == "getnext":
        return {"op": k, "oid": pick()}
    if k in ("multiget", "multigetnext"):
        return {"op": k, "oids": [pick() for _ in range(rng.randrange(1, 9))]}
    if k == "set":
        return {"op": k, "oid": pick(), "val": gen.gen_value(rng, max_str=60)}
    if k == "multiset":
        oids = []
        for _ in range(rng.randrange(1, 6)):
            o = pick()
            if o not in oids:
                oids.append(o)
        return {"op": k, "items": [(o, gen.gen_value(rng, max_str=60)) for o in oids]}
    if k == "bulkget":
        return {"op": k, "scalars": [pick() for _ in range(rng.randrange(0, 5))],
                "repeaters": [pick() for _ in range(rng.randrange(0, 5))],
                "maxrep": rng.choice([0, 1, 1, 2, 3, 5, 12])}
    raise ValueError(k)
