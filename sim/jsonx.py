"""JSON with bytes, tuples and non-string dict keys (replay files, evidence samples)."""
import json
from typing import Any


def _enc(o: Any) -> Any:
    if isinstance(o, (bytes, bytearray)):
        return {"$b": bytes(o).hex()}
    if isinstance(o, tuple):
        return {"$t": [_enc(x) for x in o]}
    if isinstance(o, list):
        return [_enc(x) for x in o]
    if isinstance(o, dict):
        if all(isinstance(k, str) for k in o):
            return {k: _enc(v) for k, v in o.items()}
        return {"$d": [[_enc(k), _enc(v)] for k, v in o.items()]}
    if isinstance(o, (set, frozenset)):
        return {"$s": [_enc(x) for x in sorted(o)]}
    return o


def _dec(o: Any) -> Any:
    if isinstance(o, list):
        return [_dec(x) for x in o]
    if isinstance(o, dict):
        if len(o) == 1:
            if "$b" in o:
                return bytes.fromhex(o["$b"])
            if "$t" in o:
                return tuple(_dec(x) for x in o["$t"])
            if "$d" in o:
                return {_dec(k): _dec(v) for k, v in o["$d"]}
            if "$s" in o:
                return set(_dec(x) for x in o["$s"])
        return {k: _dec(v) for k, v in o.items()}
    return o


def dumps(o: Any, **kw: Any) -> str:
    return json.dumps(_enc(o), **kw)


def loads(s: str) -> Any:
    return _dec(json.loads(s))
