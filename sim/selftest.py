"""Self-tests of the machinery (not of puresnmp): reference side, determinism, stub fidelity,
sensitivity (mutants), evidence validity."""
from __future__ import annotations

import glob
import os
import random
import re
import subprocess
import sys
from typing import List

from . import refber as B
from . import refsnmp as S
from . import refusm as U

REPO = os.path.dirname(os.path.abspath(os.environ.get("VERIF_REPO_SRC", "/repo/src")))
PROPS = ["C%02d" % i for i in range(1, 21) if i != 17]


def _read_hex_packets(path: str) -> List[bytes]:
    packets, cur = [], []
    for line in open(path, encoding="utf8", errors="replace"):
        line = line.rstrip("\n")
        if line.startswith("----"):
            if cur:
                packets.append(bytes(cur))
                cur = []
            continue
        if not line.strip() or line.lstrip().startswith("#"):
            continue
        m = re.match(r"^((?:[0-9a-fA-F]{2}\s+){1,16})", line + " ")
        if not m:
            continue
        cur.extend(int(x, 16) for x in m.group(1).split())
    if cur:
        packets.append(bytes(cur))
    return packets


def reference() -> int:
    fails = 0
    eng = bytes.fromhex("000000000000000000000002")
    vec = [("md5", "9faf3283884e92834ebc9847d8edd963", "526f5eed9fcce26f8964c2930787d82b"),
           ("sha1", "9fb5cc0381497b3793528939ff788d5d79145211", "6695febc9288e36282235fc7151f128497b38f3f")]
    for proto, ku, kul in vec:
        if U.password_to_ku(proto, b"maplesyrup").hex() != ku or U.localised_key(proto, b"maplesyrup", eng).hex() != kul:
            print("FAIL: RFC 3414 A.3 vector", proto)
            fails += 1
    # HMAC against the standard library (third opinion)
    import hmac as _h
    rng = random.Random(1)
    for _ in range(200):
        key = bytes(rng.getrandbits(8) for _ in range(rng.choice([16, 20, 64, 80])))
        msg = bytes(rng.getrandbits(8) for _ in range(rng.randrange(0, 300)))
        for proto in ("md5", "sha1"):
            if U.hmac96(proto, key, msg) != _h.new(key, msg, proto).digest()[:12]:
                print("FAIL: hmac96", proto)
                fails += 1
    # captured packets from the repository (net-snmp / device captures)
    files = sorted(glob.glob(os.path.join(REPO, "tests", "data", "**", "*.hex"), recursive=True))
    n_pk = n_ok = n_re = 0
    refused = []
    for f in files:
        for pk in _read_hex_packets(f):
            n_pk += 1
            try:
                msg = S.decode_message(pk)
            except B.BerError as exc:
                refused.append((os.path.relpath(f, REPO), str(exc)))
                continue
            n_ok += 1
            if msg["version"] in (0, 1) and msg["nonminimal"] == 0:
                re_enc = S.enc_community_msg(msg["version"], msg["community"], S.enc_pdu(msg["pdu"]))
                if re_enc == pk:
                    n_re += 1
                else:
                    # unsigned values sent without the leading zero octet etc. are refused earlier;
                    # anything else that does not re-encode identically is a reference-codec bug
                    print("FAIL: %s does not re-encode identically" % os.path.relpath(f, REPO))
                    fails += 1
    print("captured packets: %d files, %d packets, %d decoded strictly, %d re-encoded byte-identically" % (
        len(files), n_pk, n_ok, n_re))
    for f, why in refused:
        print("  refused by the strict decoder: %s (%s)" % (f, why))
    if n_pk and n_ok < n_pk * 0.7:
        print("FAIL: the strict decoder refuses too many captured packets")
        fails += 1
    # codec round trip over own generators
    from . import gen
    for i in range(3000):
        r = random.Random(i)
        vbs = [(gen.gen_oid_value(r) + (1,), gen.gen_value(r)) for _ in range(r.randrange(0, 6))]
        pdu = S.mkpdu(r.choice([0xA0, 0xA1, 0xA2, 0xA3, 0xA5, 0xA7, 0xA8]), r.randrange(-2**31, 2**31), vbs,
                      r.randrange(0, 19), r.randrange(0, 5))
        forms = [r.randrange(0, 5) for _ in range(8)]
        lf = (lambda level, forms=forms: forms[hash(level) % 8]) if i % 2 else S._lf0
        raw = S.enc_community_msg(1, b"c", S.enc_pdu(pdu, lf), lf)
        back = S.decode_message(raw)["pdu"]
        if back != pdu:
            print("FAIL: codec round trip", pdu, back)
            fails += 1
            break
    # GETNEXT vs naive model
    from .agent import RefAgent, naive_successor
    for i in range(300):
        r = random.Random(1000 + i)
        mib, roots, _ = gen.gen_walk_world(r)
        ag = RefAgent(dict(mib))
        keys = [o for o, _ in mib]
        for _ in range(20):
            o = r.choice(keys)[: r.randrange(1, 12)] if keys and r.random() < 0.8 else gen.gen_oid_value(r)
            if ag.successor(o) != naive_successor(keys, o):
                print("FAIL: successor", o)
                fails += 1
    print("selftest reference: %s" % ("ok" if not fails else "%d failures" % fails))
    return 1 if fails else 0


def determinism(props: List[str], seed: int, n: int = 40) -> int:
    """Same plans: twice in-process, and in fresh interpreters under two PYTHONHASHSEEDs."""
    from . import runner
    fails = 0
    for pid in props:
        try:
            prop = runner.load_prop(pid)
        except ImportError:
            continue
        idx = list(range(min(n, prop.total("quick"))))
        a = [runner.safe_execute(prop, runner.make_plan(prop, "quick", seed, i)).get("digest") for i in idx]
        b = [runner.safe_execute(prop, runner.make_plan(prop, "quick", seed, i)).get("digest") for i in idx]
        if a != b:
            print("FAIL: %s differs between two in-process executions" % pid)
            fails += 1
        for hs in ("0", "12345"):
            code = ("import sys; sys.path.insert(0, %r)\nfrom sim import runner\np = runner.load_prop(%r)\n"
                    "print(','.join(runner.safe_execute(p, runner.make_plan(p, 'quick', %d, i)).get('digest') for i in %r))"
                    % (os.path.dirname(os.path.dirname(os.path.abspath(__file__))), pid, seed, idx))
            env = dict(os.environ, PYTHONHASHSEED=hs)
            out = subprocess.run([sys.executable, "-c", code], env=env, capture_output=True, text=True, timeout=600)
            got = out.stdout.strip().split(",")
            if got != a:
                print("FAIL: %s differs in a fresh interpreter with PYTHONHASHSEED=%s\n%s" % (pid, hs, out.stderr[-500:]))
                fails += 1
        print("determinism %s: %d plans x (2 in-process + 2 fresh interpreters) %s" % (pid, len(idx), "ok" if not fails else "FAIL"))
    return 1 if fails else 0


def evidence() -> int:
    code = ("import json, glob, jsonschema\n"
            "s = json.load(open('/root/.vp/EVIDENCE.schema.json'))\n"
            "m = json.load(open('/verif/MANIFEST.json'))\n"
            "jsonschema.validate(m, json.load(open('/root/.vp/MANIFEST.schema.json')))\n"
            "n = 0\n"
            "for c in m['checks']:\n"
            "    jsonschema.validate(json.load(open(c['evidence_file'])), s); n += 1\n"
            "print('manifest and %d evidence files valid' % n)\n")
    return subprocess.run(["python3-vt", "-c", code]).returncode


def main(args: List[str], seed: int, jobs: int) -> int:
    what = args[0] if args else "reference"
    if what == "reference":
        return reference()
    if what == "determinism":
        return determinism([a.upper() for a in args[1:]] or PROPS, seed)
    if what == "evidence":
        return evidence()
    if what == "fidelity":
        from . import fidelity
        return fidelity.main()
    if what == "sensitivity":
        from . import sensitivity
        return sensitivity.main(args[1:], seed, jobs)
    print("unknown selftest", what)
    return 2
