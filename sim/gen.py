"""Shared seeded generators: values, MIBs, roots, tables, fault configurations."""
from __future__ import annotations

from typing import Any, Dict, List, Optional, Tuple

from . import refsnmp as S

BIG_ARCS = [0, 1, 2, 127, 128, 129, 255, 256, 16383, 16384, 2**21, 2**28, 2**32 - 1]
INT_EDGES = [0, 1, -1, 127, 128, -128, -129, 255, 256, 32767, 32768, -32768, -32769,
             2**23 - 1, 2**23, -(2**23), -(2**23) - 1, 2**31 - 1, -(2**31)]
U32_EDGES = [0, 1, 127, 128, 255, 256, 32767, 32768, 65535, 65536, 2**23, 2**24 - 1, 2**31 - 1,
             2**31, 2**32 - 1]
U64_EDGES = U32_EDGES + [2**32, 2**40, 2**63 - 1, 2**63, 2**64 - 1]
STR_LENS = [0, 1, 2, 5, 16, 100, 126, 127, 128, 129, 200, 255, 256, 257, 300]

ALL_KINDS = ["int", "str", "null", "oid", "ip", "c32", "g32", "tt", "opaque", "c64"]


def gen_bytes(rng: Any, n: int) -> bytes:
    return bytes(rng.getrandbits(8) for _ in range(n))


def gen_oid_value(rng: Any) -> tuple:
    first = rng.choice([0, 1, 2])
    second = rng.randrange(0, 40)
    rest = tuple(rng.choice(BIG_ARCS) if rng.random() < 0.3 else rng.randrange(0, 300)
                 for _ in range(rng.randrange(0, 8)))
    return (first, second) + rest


def gen_value(rng: Any, kind: Optional[str] = None, kinds: Optional[List[str]] = None,
              max_str: int = 300) -> S.Value:
    kind = kind or rng.choice(kinds or ALL_KINDS)
    if kind == "int":
        v = rng.choice(INT_EDGES) if rng.random() < 0.5 else rng.randrange(-(2**31), 2**31)
        return ("int", v)
    if kind in ("c32", "g32", "tt"):
        v = rng.choice(U32_EDGES) if rng.random() < 0.5 else rng.randrange(0, 2**32)
        return (kind, v)
    if kind == "c64":
        v = rng.choice(U64_EDGES) if rng.random() < 0.5 else rng.randrange(0, 2**64)
        return (kind, v)
    if kind in ("str", "opaque"):
        n = rng.choice([x for x in STR_LENS if x <= max_str]) if rng.random() < 0.5 else rng.randrange(0, min(max_str, 64) + 1)
        return (kind, gen_bytes(rng, n))
    if kind == "ip":
        return ("ip", rng.choice([b"\x00\x00\x00\x00", b"\xff\xff\xff\xff", b"\x7f\x00\x00\x01",
                                  b"\x80\x00\x00\x00", gen_bytes(rng, 4)]))
    if kind == "oid":
        return ("oid", gen_oid_value(rng))
    if kind == "null":
        return ("null", None)
    raise ValueError(kind)


def gen_suffix(rng: Any) -> tuple:
    n = rng.choice([1, 1, 1, 2, 2, 3])
    return tuple(rng.choice(BIG_ARCS) if rng.random() < 0.15 else rng.randrange(0, 12) for _ in range(n))


def gen_walk_world(rng: Any, max_roots: int = 5, kinds: Optional[List[str]] = None) -> Tuple[List[tuple], List[tuple], dict]:
    """A MIB (list of (oid, value)) and a list of pairwise disjoint roots.

    Shapes covered on purpose: empty subtrees, adjacent and far-apart subtrees, very uneven
    sizes, a subtree that ends the MIB view, roots past the end of the view, neighbours before
    the first and after the last subtree, an instance whose OID equals a root.
    """
    kinds = kinds or ["int", "str", "c32", "g32", "tt", "oid", "ip", "c64", "opaque"]
    base = (1, 3, 6, 1) + rng.choice([(2, 1), (4, 1, 9), (2,), (6, 3, 15, 1)])
    n_sub = rng.randrange(1, 7)
    if rng.random() < 0.6:
        arcs = sorted(rng.sample(range(1, 30), n_sub))
    else:
        first = rng.randrange(1, 5)
        arcs = list(range(first, first + n_sub))  # adjacent subtrees
    mib: Dict[tuple, S.Value] = {}
    subtrees: List[tuple] = []
    sizes = []
    for a in arcs:
        root = base + (a,)
        subtrees.append(root)
        mode = rng.random()
        if mode < 0.18:
            size = 0
        elif mode < 0.5:
            size = rng.randrange(1, 4)
        else:
            size = rng.randrange(1, 13)
        seen = set()
        for _ in range(size):
            suf = gen_suffix(rng)
            if suf in seen:
                continue
            seen.add(suf)
            mib[root + suf] = gen_value(rng, kinds=kinds, max_str=40)
        sizes.append(len(seen))
        if rng.random() < 0.05:
            mib[root] = gen_value(rng, kinds=kinds, max_str=8)  # instance equal to a root
    if rng.random() < 0.6:  # neighbour before everything
        mib[base[:-1] + (max(0, base[-1] - 1), 9, 0) if base[-1] > 0 else (1, 2, 0)] = ("int", 7)
    end_of_view = rng.random() < 0.45
    if not end_of_view:  # neighbour after everything
        mib[base + (40, 1, 0)] = ("str", b"after")
        if rng.random() < 0.3:
            mib[(1, 3, 7, 1, 0)] = ("int", 9)
    n_roots = rng.randrange(1, max_roots + 1)
    cand = list(subtrees)
    if rng.random() < 0.35:
        cand.append(base + (45,))       # past every instance below base (maybe past the view)
    if rng.random() < 0.2:
        cand.append((1, 3, 9, 9))       # certainly past the end of the view
    if rng.random() < 0.2:
        cand.append(base + (0,))        # before the first subtree, empty
    rng.shuffle(cand)
    roots = cand[:n_roots]
    assert roots
    info = {"sizes": sizes, "end_of_view": end_of_view}
    return sorted(mib.items()), roots, info


def expected_below(mib_items: List[tuple], roots: List[tuple]) -> Dict[tuple, S.Value]:
    out = {}
    for oid, val in mib_items:
        for r in roots:
            if len(oid) > len(r) and oid[:len(r)] == r:
                out[oid] = val
                break
    return out


def gen_faults(rng: Any, lossy: bool, timeout: int = 2) -> dict:
    f: Dict[str, Any] = {"subseed": rng.getrandbits(48), "rates": {}, "explicit": [],
                         "latency": [1, rng.choice([1, 4, 40, 400])], "timeout_hint": timeout}
    if lossy:
        kinds = rng.sample(["drop", "dup", "delay", "late"], rng.randrange(1, 4))
        for k in kinds:
            f["rates"][k] = rng.choice([0.02, 0.05, 0.1, 0.15])
    return f


def gen_clock(rng: Any, modes: Tuple[str, ...] = ("tied",)) -> dict:
    mode = rng.choice(modes)
    epoch = rng.choice([1, 127, 128, 255, 256, 32767, 32768, 2**23 - 1, 2**23 + 1, 1_700_000_000,
                        1_790_000_000, 2**31 - 1 - 10**6])
    c: Dict[str, Any] = {"mode": mode, "epoch": epoch}
    if mode == "stepping":
        c["step"] = rng.choice([1, 1, 2, 3600])
    if mode == "jumping":
        # a wall clock before 1970 is not a clock behaviour anybody meets: keep it positive
        c["epoch"] = max(epoch, 10**6)
        c["jumps"] = [[rng.randrange(0, 30), rng.choice([-3600, -2, -1, 1, 2, 60, 86400])]
                      for _ in range(rng.randrange(1, 5))]
    return c


def gen_structured_passphrase(rng: Any) -> bytes:
    """Pass-phrases that LOOK like something else (a hex key, a number, padded text): they are pass-phrases all the same and
    go through the RFC 3414 A.2 derivation like any other octet string."""
    hexd = "0123456789abcdef"
    k = rng.randrange(0, 8)
    if k == 0:
        return ("0x" + "".join(rng.choice(hexd) for _ in range(32))).encode()
    if k == 1:
        return ("0x" + "".join(rng.choice(hexd) for _ in range(40))).encode()
    if k == 2:
        return ("0X" + "".join(rng.choice(hexd.upper()) for _ in range(rng.choice([32, 40, 64])))).encode()
    if k == 3:
        return "".join(rng.choice(hexd) for _ in range(rng.choice([32, 40]))).encode()
    if k == 4:
        return "".join(rng.choice("0123456789") for _ in range(rng.choice([8, 16, 20]))).encode()
    if k == 5:
        return b"  padded pass-phrase  "
    if k == 6:
        return ("md5:" + "".join(rng.choice(hexd) for _ in range(32))).encode()
    return b"\x00" * rng.choice([8, 16, 20])
