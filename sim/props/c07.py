"""C07 - only the response to the request actually sent is ever returned."""
from __future__ import annotations

from typing import Any, Dict, List, Optional

from .. import gen, scen
from .. import refsnmp as S
from ..runner import rng_for
from ..world import World, agent_for, gen_proto

ID = "C07"
LEVEL = "exploration"
RULE = ("Seeded plans: one API operation (get, multiget, getnext, multigetnext, set, multiset, bulkget, walk, multiwalk, "
        "bulkwalk, table, bulktable; v3 includes the discovery exchange) x wall-clock mode {tied to virtual time, constant, "
        "advancing on every read, jumping forwards/backwards at plan-listed reads} x agent behaviour at the k-th request "
        "{echo, id+1, id-1, arbitrary id, id of the previous request, other community, other version field, discovery reply "
        "with foreign msgID; any of them optionally with error-status noSuchName and error-index first/0/beyond the bindings, "
        "applied to the k-th answer only or to every answer from the k-th on} x v1/v2c/v3 levels x wall-clock dates before "
        "and after 19 January 2038 x (v1/v2c) a client that was used with another community before and re-configured, the "
        "foreign community then being that earlier one. Oracle: conformant echo => same result as the twin run under the tied "
        "pre-2038 clock on a client without that history, and never InvalidResponseId; perturbed id => InvalidResponseId and no result; foreign community/version => SnmpError; foreign discovery "
        "msgID => refused and no credentialed request follows. Non-trivial: the targeted request was reached; distinct = "
        "distinct (protocol level, operation, clock mode, behaviour, target index, outcome).")
ASSUMPTIONS = [
    "a perturbed id that happens to equal the id of the request actually sent (constant clock, 'previous id') counts as an echo",
    "wrong id combined with non-zero error-status is not generated (neither C07 nor C08 says which exception wins)",
]
PROBES = ["every_later_answer_perturbed", "used_with_another_community_before", "clock_after_2038", "clock_stepping", "clock_jumping", "clock_constant", "id_plus_1", "id_minus_1", "id_arbitrary", "id_previous",
          "other_community", "other_version", "disco_foreign_msgid", "perturb_inside_walk", "multiset_stepping",
          "jump_fired", "v1", "v3", "foreign_response_with_error_status"]
shrink_lists: List[tuple] = [("mib",)]
OPS = ["get", "multiget", "getnext", "multigetnext", "set", "multiset", "bulkget", "walk", "multiwalk", "bulkwalk",
       "table", "bulktable"]
BEHAVIOURS = ["echo", "echo", "echo", "plus1", "minus1", "arbitrary", "previous", "community", "version", "disco_msgid"]


def total(tier: str) -> int:
    return 5000 if tier == "quick" else 200000


def plan_for(tier: str, seed: int, i: int) -> dict:
    rng = rng_for(seed, ID, tier, i)
    proto = gen_proto(rng, versions=("v1", "v2c", "v2c", "v3", "v3"))
    version = proto["version"]
    base = (1, 3, 6, 1, 2, 1, 7)
    mib = {}
    for c in range(1, rng.randrange(2, 4)):
        for r in range(1, rng.randrange(2, 6)):
            mib[base + (1, c, r)] = gen.gen_value(rng, kinds=["int", "str", "c32", "tt"], max_str=20)
    mib[(1, 3, 6, 1, 2, 1, 1, 1, 0)] = ("str", b"sysDescr")
    keys = sorted(mib)
    kinds = [k for k in OPS if not (version == "v1" and k.startswith("bulk"))]
    k = rng.choice(kinds)
    if k in scen.OP_KINDS_V2:
        op = scen.gen_simple_op(rng, keys, version, kinds=[k])
    elif k == "walk":
        op = {"op": k, "root": base + (1, 1)}
    elif k == "multiwalk":
        op = {"op": k, "roots": [base + (1, 1), base + (1, 2)][:rng.randrange(1, 3)]}
    mrng = rng_for(seed, ID, tier + ":mode", i)
    if k in ("walk", "multiwalk") and mrng.random() < 0.5:
        # lenient walks tolerate a FAULTY agent (non-increasing OIDs); a response to another request is not that
        op["errors"] = mrng.choice(["warn", "strict"])
    elif k == "bulkwalk":
        op = {"op": k, "roots": [base + (1, 1), base + (1, 2)][:rng.randrange(1, 3)], "bulk": rng.choice([1, 2, 5])}
    elif k == "table":
        op = {"op": k, "oid": base + (1,)}
    else:
        op = {"op": k, "oid": base, "bulk": rng.choice([1, 3, 10])}
    behaviours = [b for b in BEHAVIOURS if not (b in ("community", "version") and version == "v3")
                  and not (b == "disco_msgid" and version != "v3")]
    beh = rng.choice(behaviours)
    clock = gen.gen_clock(rng, modes=("tied", "constant", "stepping", "stepping", "jumping"))
    # the foreign response may in addition carry error-status noSuchName (SNMPv1's end-of-MIB signal, which walks treat
    # as a normal end): whichever exception wins, a response that is not the answer must never END an operation normally
    with_error = mrng.random() < 0.2
    if mrng.random() < 0.15:
        # a wall clock after 19 January 2038: the clock-derived request id no longer fits Integer32, the agent echoes
        # what it received all the same ("no matter how the clock advances")
        clock["epoch"] = mrng.choice([2**31, 2**31 + 1, 4_102_444_800, 2**32 + 7])
    # history (community-based versions): the client was used with ANOTHER community before and has been re-configured; the
    # "foreign community" of the perturbed response is then that earlier one
    prior = None
    if version != "v3" and mrng.random() < 0.25:
        prior = mrng.choice(["old-comm", "public0", proto["community"] + "2", proto["community"][:-1] or "p"])
    return {"prop": ID, "proto": proto, "mib": sorted(mib.items()), "op": op, "behaviour": beh, "with_error": with_error,
            # sticky: the agent perturbs EVERY answer from the target request on (a broken agent, not one stray datagram)
            "sticky": mrng.random() < 0.2,
            "prior_community": prior, "error_index_kind": mrng.choice(["first", "first", "zero", "beyond"]),
            "target": rng.randrange(0, 4), "arb": rng.choice([0, 1, -1, 2**31 - 1, -(2**31), 12345]), "clock": clock}


def valid(plan: dict) -> bool:
    return True


def simplify(plan: dict):
    if plan["proto"]["version"] == "v3" and plan["behaviour"] != "disco_msgid":
        p = dict(plan); p["proto"] = {"version": "v2c", "community": "public"}; yield p
    if plan["clock"]["mode"] != "tied":
        p = dict(plan); p["clock"] = {"mode": "tied", "epoch": plan["clock"]["epoch"]}; yield p
        p = dict(plan); p["clock"] = {"mode": "stepping", "epoch": 1000, "step": 1}; yield p
    if plan["target"] > 0:
        p = dict(plan); p["target"] = 0; yield p
    if plan.get("prior_community"):
        p = dict(plan); p["prior_community"] = None; yield p
    if plan.get("sticky"):
        p = dict(plan); p["sticky"] = False; yield p


def _run(plan: dict, clock: dict, behaviour: str, with_prior: bool = True) -> dict:
    proto = plan["proto"]
    prior = plan.get("prior_community") if with_prior else None
    w = World(clock=clock)
    agent = w.add_agent(agent_for(proto, dict(plan["mib"])))
    st: Dict[str, Any] = {"n": -1, "prev": None, "applied": None, "after_bad_disco": 0, "bad_disco": False, "armed": True}
    if prior:
        for comms in agent.communities.values():
            comms.add(prior.encode("ascii"))

    def hook(req: dict, resp: dict) -> Optional[dict]:
        if not st["armed"]:
            return resp
        st["n"] += 1
        rid = req["pdu"]["rid"]
        prev, st["prev"] = st["prev"], rid
        if st["bad_disco"]:
            st["after_bad_disco"] += 1
        if (st["n"] < plan["target"] if plan.get("sticky") else st["n"] != plan["target"]) \
                or behaviour in ("echo", "disco_msgid") or resp["es"] != 0:
            return resp
        if plan.get("with_error"):
            nvb = len(req["pdu"]["vbs"])
            ei = {"first": 1 if nvb else 0, "zero": 0, "beyond": nvb + 1 + plan["target"]}[plan.get("error_index_kind", "first")]
            resp = dict(resp, es=2, ei=ei, vbs=list(req["pdu"]["vbs"]))
            st["with_error"] = True
        if behaviour == "community":
            req["out_community"] = prior.encode("ascii") if prior else req["community"] + b"x"
            st["applied"] = "community"
            return resp
        if behaviour == "version":
            req["out_version"] = 1 - req["version"]
            st["applied"] = "version"
            return resp
        new = {"plus1": rid + 1, "minus1": rid - 1, "arbitrary": plan["arb"],
               "previous": prev if prev is not None else rid}[behaviour]
        new = max(-(2**31), min(2**31 - 1, new))
        if new != rid:
            st["applied"] = behaviour
        elif st.get("with_error"):
            return dict(req["model_resp"])       # nothing foreign about it after all: stay conformant
        return dict(resp, rid=new)

    def hook_v3(req: dict, f: dict) -> dict:
        if behaviour == "disco_msgid" and req.get("discovery"):
            st["bad_disco"] = True
            st["applied"] = "disco_msgid"
            return dict(f, msg_id=(f["msg_id"] + 1) % (2**31))
        return f

    agent.hook_pdu = hook
    agent.hook_v3 = hook_v3
    agent.cap = 120          # a client that keeps asking a broken agent ends in Timeout (a verdict), not in an endless run
    client = w.client(dict(proto, community=prior) if prior else proto, timeout=1, retries=1)
    res = exc = None

    async def one() -> Any:
        if prior:
            from ..world import make_credentials
            st["armed"] = False
            try:
                await scen.do_op(client, {"op": "get", "oid": (1, 3, 6, 1, 2, 1, 1, 1, 0)})
            except Exception:  # noqa: BLE001
                pass
            client.configure(credentials=make_credentials(proto))
            st["armed"] = True
        return await scen.do_op(client, plan["op"])
    try:
        res = w.run(one())
    except Exception as e:  # noqa: BLE001
        exc = e
    w.settle()
    out = {"res": res, "exc": exc, "applied": st["applied"], "with_error": bool(st.get("with_error")) and st["applied"] is not None,
           "digest": w.net.digest(),
           "cred_after_bad_disco": sum(1 for r in agent.requests if not r.get("discovery") and r["verdict"] != "?")
           if st["bad_disco"] else 0,
           "non_disco_requests": sum(1 for r in agent.requests if not r.get("discovery")),
           "counters": dict(w.net.counters), "sim_s": w.loop.time(), "exchanges": agent.exchanges,
           "reads": w.clock.reads, "jump_fired": int(any(int(k) < w.clock.reads for k, _ in clock.get("jumps", [])))}
    w.close()
    return out


def execute(plan: dict) -> dict:
    from puresnmp.exc import SnmpError
    beh = plan["behaviour"]
    a = _run(plan, plan["clock"], beh)
    violation = None

    def fail(clause: str, d: str) -> None:
        nonlocal violation
        if violation is None:
            violation = {"clause": clause, "detail": "%s | op=%s clock=%s behaviour=%s target=%d" % (
                d, plan["op"]["op"], plan["clock"], beh, plan["target"])}

    exc = a["exc"]
    excname = type(exc).__name__ if exc else None
    digests = [a["digest"]]
    exchanges, sim_s = a["exchanges"], a["sim_s"]
    if a["applied"] is None:
        # conformant echo (or the perturbation never applied): must behave as under the tied clock
        # (a wall clock after 2038 is compared with a twin before 2038: the date must not matter either)
        # ... and a client without the earlier community in its history
        b = _run(plan, {"mode": "tied", "epoch": min(plan["clock"]["epoch"], 1_700_000_000)}, "echo", with_prior=False)
        digests.append(b["digest"])
        exchanges += b["exchanges"]
        sim_s += b["sim_s"]
        bname = type(b["exc"]).__name__ if b["exc"] else None
        if excname == "InvalidResponseId":
            fail("echo-refused", "conformant echo refused: %s" % exc)
        elif excname != bname:
            fail("echo-refused" if excname else "twin-differs",
                 "conformant echo: %s (%s) but %s under the tied clock" % (excname or "ok", exc, bname or "ok"))
        elif exc is None and a["res"] != b["res"]:
            fail("twin-differs", "result differs from the tied-clock twin")
    elif a["with_error"]:
        if exc is None:
            fail("foreign-response-used", "a response with foreign %s and error-status noSuchName ended the operation "
                 "normally with %r" % (a["applied"], str(a["res"])[:200]))
    elif a["applied"] in ("plus1", "minus1", "arbitrary", "previous"):
        if excname != "InvalidResponseId":
            fail("foreign-id-accepted" if exc is None else "raised:" + excname,
                 "response id perturbed (%s): expected InvalidResponseId, got %s %r" % (
                     a["applied"], excname or "a result", str(exc) if exc else a["res"]))
    elif a["applied"] in ("community", "version"):
        if exc is None or not isinstance(exc, SnmpError):
            fail("foreign-community-accepted" if exc is None else "raised:" + excname,
                 "response with foreign %s: expected SnmpError, got %s %r" % (
                     a["applied"], excname or "a result", str(exc) if exc else a["res"]))
    elif a["applied"] == "disco_msgid":
        if exc is None:
            fail("foreign-discovery-accepted", "discovery reply with foreign msgID was accepted")
        elif a["non_disco_requests"]:
            fail("request-after-bad-discovery", "%d requests were sent after the refused discovery reply" % a["non_disco_requests"])
    mode = plan["clock"]["mode"]
    probes = {k: 0 for k in PROBES}
    probes["clock_" + mode] = 1 if mode != "tied" else 0
    probes.pop("clock_tied", None)
    probes["every_later_answer_perturbed"] = int(bool(plan.get("sticky")) and a["applied"] is not None)
    probes["used_with_another_community_before"] = int(bool(plan.get("prior_community")))
    probes["clock_after_2038"] = int(plan["clock"]["epoch"] >= 2**31)
    for k, name in (("plus1", "id_plus_1"), ("minus1", "id_minus_1"), ("arbitrary", "id_arbitrary"),
                    ("previous", "id_previous"), ("community", "other_community"), ("version", "other_version"),
                    ("disco_msgid", "disco_foreign_msgid")):
        if a["applied"] == k:
            probes[name] = 1
    probes["perturb_inside_walk"] = int(a["applied"] is not None and plan["target"] > 0)
    probes["foreign_response_with_error_status"] = int(a["with_error"])
    probes["multiset_stepping"] = int(plan["op"]["op"] in ("set", "multiset") and mode == "stepping")
    probes["jump_fired"] = int(mode == "jumping" and a["jump_fired"])
    probes["v1"] = int(plan["proto"]["version"] == "v1")
    probes["v3"] = int(plan["proto"]["version"] == "v3")
    counters = dict(a["counters"])
    for kk, v in probes.items():
        counters["probe_" + kk] = v
    import hashlib
    level = plan["proto"].get("level", "") if plan["proto"]["version"] == "v3" else ""
    return {
        "violation": violation, "digest": hashlib.sha256("".join(digests).encode()).hexdigest(), "triggers": [],
        "counters": counters,
        "shape": repr((plan["proto"]["version"], level, plan["op"]["op"], mode, beh, a["applied"], plan["target"], excname)),
        "nontrivial": a["applied"] is not None or mode != "tied", "sim_s": sim_s, "exchanges": exchanges,
        "summary": "%s clock=%s beh=%s applied=%s -> %s" % (plan["op"]["op"], mode, beh, a["applied"], excname or "ok"),
    }


def describe(plan: dict) -> str:
    return "proto=%s op=%s clock=%s behaviour=%s target=%d" % (
        {k: v for k, v in plan["proto"].items() if "pass" not in k}, plan["op"], plan["clock"], plan["behaviour"],
        plan["target"])
