"""C06 - every response value reaches the caller with the type and value that was sent."""
from __future__ import annotations

from typing import Any, Dict, List

from .. import gen, scen
from .. import refber as B
from .. import refsnmp as S
from ..loop import keyed
from ..runner import rng_for
from ..world import World, agent_for, gen_proto

ID = "C06"
LEVEL = "exploration"
RULE = ("Seeded plans: MIB values over the full range of every SNMP type (integers at and around every byte boundary, "
        "unsigned types up to 2^32-1 / 2^64-1 (5- and 9-octet contents), strings and Opaque of length 0..65000 incl. "
        "126/127/128/255/256, OIDs with sub-identifiers up to 2^32-1, the three exception markers), binding lists of 0-60, "
        "status-0 error-index values across Integer32; the reference agent encodes every TLV level (value, name, binding, "
        "binding list, PDU fields, PDU, message, v3 header/security parameters/scoped PDU) with a legal length form drawn "
        "per TLV from the plan (minimal, or long form with 1-4 octets). Operations: multiget, walk, bulkget. Plus the history "
        "clause: each response seen is decoded and re-encoded with x690/PDU/ScopedPDU/USMSecurityParameters/Message and both "
        "encodings compared as content by the independent decoder. Non-trivial: >=1 value compared; distinct = distinct "
        "(protocol level, operation, multiset of (kind, content length class), length forms used).")
ASSUMPTIONS = [
    "peer nondeterminism only (legal encoding choices of a conformant agent); no network fault is involved",
    "content equality of re-encodings ignores length forms, as the property asks for 'an encoding of the same content'",
]
PROBES = ["nonminimal_length", "four_octet_length", "uint32_5_octets", "c64_9_octets", "str_127", "str_128", "str_255",
          "str_256", "str_65000", "neg_int", "exception_marker", "zero_bindings", "sixty_bindings", "ei_nonzero",
          "v3_auth_nonminimal_outer", "big_subid"]
shrink_lists = [("oids",), ("mib",)]


def total(tier: str) -> int:
    return 3000 if tier == "quick" else 80000


def plan_for(tier: str, seed: int, i: int) -> dict:
    rng = rng_for(seed, ID, tier, i)
    proto = gen_proto(rng, versions=("v1", "v2c", "v2c", "v3", "v3"))
    base = (1, 3, 6, 1, 2, 1, rng.randrange(1, 4))
    mib: Dict[tuple, S.Value] = {}
    n = rng.choice([1, 2, 3, 5, 8, 20, 60])
    kinds = [k for k in gen.ALL_KINDS if not (proto["version"] == "v1" and k == "c64")]
    big = rng.random() < (0.01 if tier == "thorough" else 0.004)
    for j in range(n):
        oid = base + (1 + j // 7, j % 7) + ((rng.choice(gen.BIG_ARCS),) if rng.random() < 0.2 else ())
        r = rng.random()
        if r < 0.12:
            ln = rng.choice(list(range(120, 261))) if not big else 65000
            mib[oid] = (rng.choice(["str", "opaque"]), gen.gen_bytes(rng, ln))
        else:
            mib[oid] = gen.gen_value(rng, kinds=kinds, max_str=300)
    keys = sorted(mib)
    op = rng.choice(["multiget", "multiget", "walk", "bulkget"])
    if proto["version"] == "v1" and op == "bulkget":
        op = "multiget"
    if op == "multiget" and proto["version"] != "v1":
        # an agent may bind any of the three exception markers to a name in a GET response (endOfMibView there is
        # unusual, yet it is a well-formed value): each must reach the caller as what it is, in its position
        krng = rng_for(seed, ID, tier + ":markers", i)
        for o in keys:
            if krng.random() < 0.08:
                mib[o] = (krng.choice(["eom", "nso", "nsi"]), None)
    oids = [rng.choice(keys) if rng.random() < 0.85 else base + (9, 9) for _ in range(rng.choice([0, 1, 2, 5, 20, 60]))]
    forms = rng.choice([[0], [0, 1], [1], [1, 2], [0, 1, 2, 3, 4], [4], [2, 3]])
    return {"prop": ID, "proto": proto, "mib": sorted(mib.items()), "op": op, "oids": oids, "root": base,
            "forms": forms, "lfseed": rng.getrandbits(40),
            "ei": rng.choice([0, 0, 0, 1, 127, 128, 32768, 2**31 - 1, -1, -(2**31)]),
            "maxrep": rng.choice([1, 3, 10]), "clock": gen.gen_clock(rng),
            "agent_max_size": rng_for(seed, ID, tier + ":mms", i).choice([65507, 65507, 484, 1472, 2**31 - 1])}


def valid(plan: dict) -> bool:
    return True


def simplify(plan: dict):
    if plan["forms"] != [0]:
        p = dict(plan); p["forms"] = [0]; yield p
        for f in plan["forms"]:
            if len(plan["forms"]) > 1:
                p = dict(plan); p["forms"] = [f]; yield p
    if plan["ei"]:
        p = dict(plan); p["ei"] = 0; yield p
    if plan["proto"]["version"] == "v3":
        p = dict(plan); p["proto"] = {"version": "v2c", "community": "public"}; yield p


def execute(plan: dict) -> dict:
    proto = plan["proto"]
    version = proto["version"]
    w = World(clock=plan.get("clock"))
    mib = dict(plan["mib"])
    agent = w.add_agent(agent_for(proto, mib))
    agent.max_bulk_bindings = 120
    agent.announce_max_size = int(plan.get("agent_max_size", 65507))
    forms = plan["forms"]
    cnt = [0]
    used_forms = set()

    def lf_for(req: dict):
        def lf(level: str) -> int:
            cnt[0] += 1
            f = forms[keyed(plan["lfseed"], level, cnt[0]) % len(forms)]
            used_forms.add(f)
            return f
        return lf
    agent.lf_for = lf_for
    if plan["ei"]:
        agent.hook_pdu = lambda req, resp: dict(resp, ei=plan["ei"]) if resp["es"] == 0 else resp
    client = w.client(proto, timeout=1, retries=1)
    op = plan["op"]
    if op == "multiget":
        theop = {"op": "multiget", "oids": [tuple(o) for o in plan["oids"]]}
    elif op == "walk":
        theop = {"op": "walk", "root": tuple(plan["root"])}
    else:
        theop = {"op": "bulkget", "scalars": [tuple(o) for o in plan["oids"][:2]],
                 "repeaters": [tuple(o) for o in plan["oids"][2:5]], "maxrep": plan["maxrep"]}
    res = exc = None

    async def one() -> Any:
        return await scen.do_op(client, theop)
    try:
        res = w.run(one())
    except Exception as e:  # noqa: BLE001
        exc = e
    w.settle()
    violation = None

    def fail(clause: str, d: str) -> None:
        nonlocal violation
        if violation is None:
            violation = {"clause": clause, "detail": d}

    sent: List[S.Value] = []
    ok = [r for r in agent.requests if r["verdict"] == "ok"]
    excname = type(exc).__name__ if exc else None
    v1_nosuch = version == "v1" and any(r["resp_pdu"]["es"] for r in ok)
    if exc is not None and not v1_nosuch:
        fail("raised:" + excname, "%s on well-formed responses: %s" % (excname, exc))
    elif exc is None:
        if op == "multiget":
            want = [v for _, v in ok[-1]["resp_pdu"]["vbs"]] if ok else []
            sent = want
            if res != want:
                bad = [(a, b) for a, b in zip(res, want) if a != b][:3]
                fail("value", "multiget returned %r..., agent encoded %r... (first differences %r)" % (res[:2], want[:2], bad))
        elif op == "walk":
            got = dict(res)
            for o, v in got.items():
                sent.append(mib.get(o))
                if mib.get(o) != v:
                    fail("value", "walk returned %s=%r, agent holds %r" % (S.oid_str(o), v, mib.get(o)))
            below = {o for o in mib if len(o) > len(theop["root"]) and o[:len(theop["root"])] == theop["root"]}
            if set(got) != below:
                fail("value", "walk returned %d instances, agent holds %d below the root" % (len(got), len(below)))
        else:
            vbs = ok[-1]["resp_pdu"]["vbs"] if ok else []
            n = len(theop["scalars"])
            want_sc = list(dict(vbs[:n]).items())
            listing: Dict[tuple, Any] = {}
            for o, v in vbs[n:]:
                if v[0] == "eom":
                    break
                listing[o] = v
            sent = [v for _, v in vbs]
            if res != {"scalars": want_sc, "listing": list(listing.items())}:
                fail("value", "bulkget returned %r, agent encoded %r" % (res, vbs))
    # ---- history clause: decode / re-encode every response seen ------------------------------
    n_reenc = 0
    if violation is None:
        for r in agent.requests:
            for raw in r["responses"]:
                try:
                    err = _reencode_check(raw, r)
                except Exception as e:  # noqa: BLE001 - raised by the code under test
                    import traceback
                    err = "decode/re-encode raised %s: %s @ %s" % (
                        type(e).__name__, e, traceback.format_exc(limit=-2).splitlines()[-3].strip())
                n_reenc += 1
                if err:
                    fail("re-encoding", "%s | response %s" % (err, raw.hex()[:120]))
                    break
    probes = {k: 0 for k in PROBES}
    probes["nonminimal_length"] = int(bool(used_forms - {0}))
    probes["four_octet_length"] = int(4 in used_forms)
    for v in sent:
        if not v:
            continue
        k, x = v
        if k in ("c32", "g32", "tt") and x >= 2**31:
            probes["uint32_5_octets"] = 1
        if k == "c64" and x >= 2**63:
            probes["c64_9_octets"] = 1
        if k in ("str", "opaque"):
            for ln in (127, 128, 255, 256, 65000):
                if len(x) == ln:
                    probes["str_%d" % ln] = 1
        if k == "int" and x < 0:
            probes["neg_int"] = 1
        if k in ("nso", "nsi", "eom"):
            probes["exception_marker"] = 1
    probes["zero_bindings"] = int(op == "multiget" and not plan["oids"])
    probes["sixty_bindings"] = int(op == "multiget" and len(plan["oids"]) == 60)
    probes["ei_nonzero"] = int(bool(plan["ei"]))
    probes["v3_auth_nonminimal_outer"] = int(bool(proto.get("auth")) and bool(used_forms - {0}))
    probes["big_subid"] = int(any(any(a >= 2**28 for a in o) for o, _ in plan["mib"]))
    counters = dict(w.net.counters)
    counters["values_compared"] = len(sent)
    counters["responses_reencoded"] = n_reenc
    for kk, v in probes.items():
        counters["probe_" + kk] = v
    level = proto.get("level", "") if version == "v3" else ""
    classes = sorted(set((v[0], _lenclass(v)) for v in sent if v))
    out = {
        "violation": violation, "digest": w.net.digest(), "triggers": [], "counters": counters,
        "shape": repr((version, level, op, classes, sorted(used_forms))),
        "nontrivial": len(sent) > 0, "sim_s": w.loop.time(), "exchanges": agent.exchanges,
        "summary": "%s %d values forms=%s exc=%s" % (op, len(sent), sorted(used_forms), excname),
    }
    w.close()
    return out


def _lenclass(v: S.Value) -> int:
    k, x = v
    if k in ("str", "opaque"):
        return min(len(x), 300) // 64
    if isinstance(x, int):
        return (abs(x).bit_length() + 7) // 8
    return 0


def _rebuild(v: Any) -> Any:
    """Force the real encoder: build a fresh object from the decoded Python value."""
    if v.value is None:   # NULL and the exception markers carry no content to re-encode
        return v
    return type(v)(v.value)


def _reencode_check(raw: bytes, req: dict) -> str:
    """Decode with the code under test, re-encode, compare content trees via refber."""
    from x690 import decode as xdecode
    from x690.types import Sequence as XSequence
    from puresnmp.adt import Message, ScopedPDU
    from puresnmp.pdu import PDU, PDUContent
    from puresnmp.varbind import VarBind
    from puresnmp_plugins.security.usm import USMSecurityParameters

    def same(a: bytes, b: bytes, what: str) -> str:
        try:
            ta, tb = B.content_tree(B.parse(a)), B.content_tree(B.parse(b))
        except B.BerError as exc:
            return "%s: re-encoding is not well-formed BER (%s)" % (what, exc)
        return "" if ta == tb else "%s: re-encoding differs in content" % what

    def pdu_roundtrip(pdu: Any, original: bytes) -> str:
        if not isinstance(pdu, PDU):
            return "not decoded as a PDU: %r" % type(pdu)
        try:
            content = pdu.value
        except Exception as exc:  # error-status PDUs raise on purpose when their content is read ...
            if not (type(exc).__name__ in ("ErrorResponse", "NoSuchOID") or hasattr(exc, "error_status")):
                return "PDU value raised %s" % type(exc).__name__
            # ... re-encoding the decoded PDU must still yield the same content
            return same(bytes(pdu), original, "PDU with error-status (lazy)")
        fresh = type(pdu)(PDUContent(content.request_id,
                                     [VarBind(type(vb.oid)(vb.oid.value), _rebuild(vb.value)) for vb in content.varbinds],
                                     content.error_status, content.error_index))
        return same(bytes(fresh), original, "PDU") or same(bytes(pdu), original, "PDU (lazy)")

    root = B.parse(raw)
    ch = root.children
    if B.dec_int(ch[0].content) != 3:
        decoded, _ = xdecode(raw, enforce_type=XSequence)
        err = same(bytes(decoded), raw, "message")
        if err:
            return err
        return pdu_roundtrip(decoded[2], raw[ch[2].start:ch[2].end])
    msg = Message.decode(raw)
    err = same(bytes(msg), raw, "SNMPv3 message")
    if err:
        return err
    sec_raw = bytes(ch[2].content)
    err = same(bytes(USMSecurityParameters.decode(sec_raw)), sec_raw, "security parameters")
    if err:
        return err
    if ch[3].tag == 0x30:
        sp_raw = raw[ch[3].start:ch[3].end]
        sp = ScopedPDU.decode(sp_raw)
        err = same(bytes(sp), sp_raw, "scoped PDU")
        if err:
            return err
        inner = B.parse(sp_raw).children[2]
        return pdu_roundtrip(sp.data, sp_raw[inner.start:inner.end])
    return ""


def describe(plan: dict) -> str:
    return "proto=%s op=%s forms=%s ei=%s oids=%s\nmib=%s" % (
        {k: v for k, v in plan["proto"].items() if "pass" not in k}, plan["op"], plan["forms"], plan["ei"],
        [S.oid_str(tuple(o)) for o in plan["oids"]][:10],
        [(S.oid_str(tuple(o)), v[0], (len(v[1]) if isinstance(v[1], bytes) else v[1])) for o, v in plan["mib"]][:30])
