"""C09 - USM: no unauthenticated, altered or downgraded response is ever accepted."""
from __future__ import annotations

import hashlib
from typing import Any, Dict, List, Optional, Tuple

from .. import gen, scen
from .. import refber as B
from .. import refsnmp as S
from .. import refusm as U
from ..runner import rng_for
from ..world import BudgetExceeded, World, agent_for, make_credentials

ID = "C09"
LEVEL = "fault_enumeration"
FORGERIES = [
    "flags0_plain", "flags0_digest_kept", "flags1_plain_forged", "flags3_garbage_cipher", "flags_reportable_only",
    "digest_empty", "digest_1", "digest_6", "digest_11", "digest_zero12", "digest_13", "digest_random12",
    "other_password", "other_engine_localised", "other_user_signed", "other_user_field",
    "priv_cleared_old_digest", "priv_cleared_wrongkey_digest", "priv_cleared_no_auth",
    "auth_cleared_cipher_malleated", "auth_cleared_cipher_malleated_digest_kept", "auth_cleared_plain", "auth_cleared_attacker_octets",
    "priv_flag_kept_plaintext_signed_by_auth_key_holder",
    "report_known_oid", "report_unknown_oid", "report_response_bindings", "report_authflag_baddigest",
    "report_empty_bindings", "report_error_status_nosuchname", "report_error_status_toobig", "report_boots_ahead",
    "report_time_ahead", "response_as_report_tag", "flags2_plain_any_level", "flags0_plain_tag_trap", "flags0_plain_tag_inform",
    "flags0_plain_tag_getrequest", "flags0_plain_tag_setrequest", "flags0_plain_other_msgid", "flags0_plain_msgid_zero",
]
OPS = ["get", "multiget", "getnext", "set", "bulkget", "walk"]
HASHES = ["md5", "sha1"]
LEVELS = [1, 3]
CHUNK = 8  # bytes of the response per flip plan
MAXLEN = 416
RULE = ("For every scenario (hash x level x operation x database; quick: 2x2x{get, walk, bulkget}, thorough: 2x2x6 with two databases) "
        "the exchange is first run un-attacked, then re-run from the identical state (determinism makes the twin exact) once "
        "per attacker transformation of the targeted authentic response: EVERY single-bit flip of the response (enumerated in "
        "chunks of %d octets) and %d structural forgeries built with the reference encoder and carrying different data "
        "(flags 0/1/3/4 mismatching the credentials with plaintext scoped PDU, digest empty/1/6/11/12-zero/13/random, signed "
        "under another password / right password localised to another engine / another user, privacy flag cleared with "
        "plaintext, authentication flag cleared (msgFlags 0x02) with the ciphertext malleated by one bit / plaintext / attacker "
        "octets, the same forgeries against a client that first used the user name without keys and was then given them, "
        "unauthenticated Reports with usmStats OIDs, unknown OIDs, response bindings or no bindings). Oracle: exception, or "
        "exactly the authentic result; for Reports only an exception. Non-trivial: a twin in which the transformed datagram "
        "was delivered; distinct = distinct (scenario, transformation)." % (CHUNK, len(FORGERIES)))
ASSUMPTIONS = [
    "the attacker does not know the user's keys (it cannot produce a valid digest over altered content); one forgery is "
    "made by a holder of the authentication key only (plaintext under msgFlags auth|priv for a privacy user)",
    "bit flips that the client tolerates and that leave the result identical to the authentic one are allowed by the property",
    "replaying an authentic response to a different request is not among the property's attacker actions and is not generated",
]
PROBES = ["flip_in_digest", "flip_in_header", "flip_in_pdu_or_cipher", "flip_tolerated_same_result", "forgery_delivered",
          "report_forgery", "downgrade_forgery", "authpriv", "walk_target_later_response", "keys_configured_after_noauth_phase"]
shrink_lists: List[tuple] = []

BASE = (1, 3, 6, 1, 2, 1, 7)


def _scenarios(tier: str) -> List[dict]:
    out = []
    ops = ["get", "walk", "bulkget"] if tier == "quick" else OPS
    dbs = [0] if tier == "quick" else [0, 1]
    for h in HASHES:
        for lv in LEVELS:
            for op in ops:
                for db in dbs:
                    out.append({"hash": h, "level": lv, "op": op, "db": db})
    return out


def _units(tier: str) -> List[Tuple[int, dict]]:
    units = []
    for si, _ in enumerate(_scenarios(tier)):
        for start in range(0, MAXLEN, CHUNK):
            units.append((si, {"kind": "flips", "bytes": [start, start + CHUNK]}))
        for name in FORGERIES:
            units.append((si, {"kind": "forge", "name": name}))
        # the same forgeries against a client that first talked to the agent as the SAME user without keys
        # (noAuthNoPriv) and was then given the user's keys (Client.configure): nothing remembered from the
        # unprotected phase may weaken the protected one
        for name in FORGERIES:
            units.append((si, {"kind": "forge", "name": name, "prior": "noauth"}))
        # an attacker who cannot compute the digest can still try every value of a ONE-octet digest on altered content
        for start in range(0, 256, 64):
            units.append((si, {"kind": "digest1", "values": [start, start + 64]}))
    return units


_UNITS: Dict[str, List[Tuple[int, dict]]] = {}


def total(tier: str) -> int:
    if tier not in _UNITS:
        _UNITS[tier] = _units(tier)
    return len(_UNITS[tier])


def exhaustive(tier: str) -> Optional[str]:
    return ("every single-bit flip of the targeted authentic response and all %d forgeries, for each of %d scenarios"
            % (len(FORGERIES), len(_scenarios(tier))))


def plan_for(tier: str, seed: int, i: int) -> dict:
    total(tier)
    si, attack = _UNITS[tier][i]
    sc = _scenarios(tier)[si]
    rng = rng_for(seed, ID, tier, si)  # per scenario, not per unit: all units of a scenario share the database
    mib = {}
    for c in (1, 2):
        for r in range(1, 3 + sc["db"] * 2):
            mib[BASE + (1, c, r)] = gen.gen_value(rng, kinds=["int", "str", "c32"], max_str=12 + 100 * sc["db"])
    target = 1 if sc["op"] != "walk" else rng.choice([1, 2])
    return {"prop": ID, "scenario": sc, "mib": sorted(mib.items()), "attack": attack, "target": target,
            "user": "alice", "auth_pass": rng.choice([b"maplesyrup", b"authpass-0123456789"]),
            "priv_pass": b"privpass-abcdef", "priv": rng.choice(["verifstream", "verifstream2"])}


def simplify(plan: dict):
    a = plan["attack"]
    if a["kind"] == "flips":
        for byte in range(a["bytes"][0], a["bytes"][1]):
            for bit in range(8):
                p = dict(plan); p["attack"] = {"kind": "flip1", "byte": byte, "bit": bit}; yield p


def _proto(plan: dict) -> dict:
    sc = plan["scenario"]
    p = {"version": "v3", "user": plan["user"], "level": sc["level"], "auth": sc["hash"], "auth_pass": plan["auth_pass"]}
    if sc["level"] & 2:
        p.update({"priv": plan["priv"], "priv_pass": plan["priv_pass"]})
    return p


def _op(plan: dict) -> dict:
    k = plan["scenario"]["op"]
    o1, o2 = BASE + (1, 1, 1), BASE + (1, 2, 1)
    return {"get": {"op": "get", "oid": o1}, "multiget": {"op": "multiget", "oids": [o1, o2]},
            "getnext": {"op": "getnext", "oid": o1}, "set": {"op": "set", "oid": o1, "val": ("str", b"new-value")},
            "bulkget": {"op": "bulkget", "scalars": [o1], "repeaters": [o2], "maxrep": 2},
            "walk": {"op": "walk", "root": BASE + (1, 1)}}[k]


def _run(plan: dict, rewrite: Any) -> dict:
    proto = _proto(plan)
    w = World()
    agent = w.add_agent(agent_for(proto, dict(plan["mib"])))
    seen: Dict[int, bytes] = {}
    delivered = {"n": 0}
    target_shift = [0]
    armed = [True]

    def rewriter(direction: str, idx: int, data: bytes) -> Optional[bytes]:
        if direction != "a2c":
            return None
        seen[idx] = data
        if armed[0] and idx == plan["target"] + target_shift[0] and rewrite is not None:
            new = rewrite(data, agent)
            if new is not None and new != data:
                delivered["n"] += 1
            return new
        return None

    w.net.rewriter = rewriter
    prior = plan["attack"].get("prior")
    if prior == "noauth":
        agent.require_exact_level = False
        armed[0] = False
        client = w.client({"version": "v3", "user": proto["user"], "level": 0}, timeout=1, retries=1)
        from ..world import OID as _OID
        w.run(client.get(_OID(BASE + (1, 1, 1))))
        client.configure(credentials=make_credentials(proto))
        target_shift[0] = w.net.dir_index["a2c"] - 1      # no second discovery: responses are counted on from here
        armed[0] = True
    else:
        client = w.client(proto, timeout=1, retries=1)
    res = exc = None

    async def one() -> Any:
        return await scen.do_op(client, _op(plan))
    hang = False
    try:
        res = w.run_budgeted(one(), 400_000)
    except BudgetExceeded as e:
        exc, hang = e, True      # a spin in the client: C20's subject; no forged data was accepted
    except Exception as e:  # noqa: BLE001
        exc = e
    follow = None
    if not hang:
        w.settle()
        # the attack is over: the next request on the same client must work as if nothing had happened (no state
        # may have been adopted from a message that was not authentic)
        armed[0] = False
        from ..world import OID as _OID2, to_ref as _to_ref
        try:
            follow = ("ok", _to_ref(w.run_budgeted(client.get(_OID2(BASE + (1, 2, 1))), 400_000)))
        except BudgetExceeded:
            follow = ("hang",)
        except Exception as e:  # noqa: BLE001
            follow = ("exc", type(e).__name__, str(e)[:100])
        w.settle()
    out = {"res": res, "exc": exc, "seen": seen, "hang": hang, "digest": w.net.digest(), "delivered": delivered["n"],
           "follow": follow,
           "sim_s": w.loop.time(), "exchanges": agent.exchanges, "agent_engine": agent.engine_id, "target_shift": target_shift[0],
           "counters": dict(w.net.counters)}
    w.close()
    return out


FORGED_VALUE = ("str", b"FORGED-BY-ATTACKER")


def _forge(name: str, plan: dict, raw: bytes, agent: Any, digest_octet: int = 1) -> Optional[bytes]:
    """Build a forgery from the authentic response *raw* without using the user's keys."""
    sc = plan["scenario"]
    msg = S.decode_message(raw)
    sec = dict(msg["sec"])
    authentic_pdu = None
    if msg["scoped"] is not None:
        authentic_pdu = msg["scoped"]["pdu"]
        ctx_engine, ctx_name = msg["scoped"]["ctx_engine"], msg["scoped"]["ctx_name"]
    else:
        # the attacker cannot read the ciphertext; it knows the request (sent by the client) well enough
        # to fabricate a plausible response: the agent's log gives us the request id and OIDs
        req = [r for r in agent.requests if r["verdict"] == "ok"][-1]
        authentic_pdu = req["resp_pdu"]
        ctx_engine, ctx_name = req["scoped"]["ctx_engine"], req["scoped"]["ctx_name"]
    forged_pdu = S.mkpdu(S.PDU_RESPONSE, authentic_pdu["rid"], [(o, FORGED_VALUE) for o, _ in authentic_pdu["vbs"]]
                         or [(BASE + (9, 9), FORGED_VALUE)])
    scoped = S.enc_scoped(ctx_engine, ctx_name, S.enc_pdu(forged_pdu))

    def build(flags: int, auth: bytes, data: bytes, priv: bytes = b"", user: Optional[bytes] = None,
              engine: Optional[bytes] = None) -> bytes:
        s = dict(sec, auth=auth, priv=priv)
        if user is not None:
            s["user"] = user
        if engine is not None:
            s["engine_id"] = engine
        return S.enc_v3_msg(msg["msg_id"], 65507, flags, 3, S.enc_usm_params(s), data)

    def signed(flags: int, key: bytes, data: bytes, priv: bytes = b"", **kw: Any) -> bytes:
        m = build(flags, b"\x00" * 12, data, priv, **kw)
        off, _ = S.decode_message(m)["auth_off"]
        return m[:off] + U.sign(sc["hash"], key, m) + m[off + 12:]

    wrong_key = U.localised_key(sc["hash"], b"attacker-guess-password", sec["engine_id"])
    level = sc["level"]
    if name == "flags0_plain":
        return build(0, b"", scoped)
    if name in ("flags0_plain_other_msgid", "flags0_plain_msgid_zero"):
        # the same forgery under a header msgID the client has no outstanding request for (PDU request-id kept)
        m = build(0, b"", scoped)
        other_id = 0 if name.endswith("zero") else (msg["msg_id"] + 1) % (2**31)
        return S.enc_v3_msg(other_id, 65507, 0, 3, S.enc_usm_params(dict(sec, auth=b"", priv=b"")), scoped)
    if name == "flags2_plain_any_level":
        # msgFlags 0x02 (privacy without authentication) is not a security level at all; with a plaintext scoped PDU
        return build(2, b"", scoped)
    if name.startswith("flags0_plain_tag_"):
        tag = {"trap": S.PDU_TRAP2, "inform": S.PDU_INFORM, "getrequest": S.PDU_GET, "setrequest": S.PDU_SET}[name.rsplit("_", 1)[1]]
        other = dict(forged_pdu, tag=tag)
        return build(0, b"", S.enc_scoped(ctx_engine, ctx_name, S.enc_pdu(other)))
    if name == "flags0_digest_kept":
        return build(0, sec["auth"], scoped, sec["priv"])
    if name == "flags1_plain_forged":
        return signed(1, wrong_key, scoped)
    if name == "flags3_garbage_cipher":
        return signed(3, wrong_key, B.enc_str(hashlib.sha256(scoped).digest() * 3), b"\x00" * 8)
    if name == "flags_reportable_only":
        return build(4, b"", scoped)
    if name.startswith("digest_"):
        what = name.split("_", 1)[1]
        d = {"empty": b"", "1": bytes([digest_octet]), "6": b"\x00" * 6, "11": b"\x00" * 11, "zero12": b"\x00" * 12,
             "13": b"\x00" * 13, "random12": hashlib.md5(raw).digest()[:12]}[what]
        data = scoped if level == 1 else B.enc_str(scoped)  # for priv users: "ciphertext" = attacker bytes
        return build(level, d, data, sec["priv"])
    if name == "other_password":
        data = scoped if level == 1 else B.enc_str(scoped)
        return signed(level, wrong_key, data, sec["priv"])
    if name == "other_engine_localised":
        other = b"\x80\x00\x00\x00\x05other-engine"
        key = U.localised_key(sc["hash"], b"attacker-guess-password", other)
        data = scoped if level == 1 else B.enc_str(scoped)
        return signed(level, key, data, sec["priv"], engine=other)
    if name == "other_user_signed":
        data = scoped if level == 1 else B.enc_str(scoped)
        return signed(level, wrong_key, data, sec["priv"], user=b"mallory")
    if name == "other_user_field":
        # authentic message with only the user name replaced (digest no longer matches)
        m = S.enc_v3_msg(msg["msg_id"], msg["max_size"], msg["flags"], 3,
                         S.enc_usm_params(dict(sec, user=b"mallory")),
                         msg["scoped_raw"] if msg["scoped"] is not None else B.enc_str(msg["encrypted"]))
        return m
    if name.startswith("priv_cleared"):
        if level != 3:
            return None
        if name == "priv_cleared_old_digest":
            return build(1, sec["auth"], scoped)
        if name == "priv_cleared_wrongkey_digest":
            return signed(1, wrong_key, scoped)
        return build(0, b"", scoped)
    if name == "priv_flag_kept_plaintext_signed_by_auth_key_holder":
        # the two pass-phrases are independent secrets: a forger (or a middle box) holding only the AUTHENTICATION key
        # sends plaintext under msgFlags auth|priv with a correct digest - a privacy user must not accept plaintext
        if level != 3:
            return None
        right_key = U.localised_key(sc["hash"], plan["auth_pass"], sec["engine_id"])
        return signed(3, right_key, scoped, sec["priv"])
    if name.startswith("auth_cleared"):
        # privacy users: only the authentication flag is cleared (msgFlags 0x02, an invalid level an attacker can still send)
        if level != 3 or msg["encrypted"] is None:
            return None
        if name.startswith("auth_cleared_cipher_malleated"):
            # the attacker cannot decrypt, but a stream/CFB cipher is malleable: flip the last ciphertext bit
            c = bytearray(msg["encrypted"])
            c[-1] ^= 1
            return build(2, sec["auth"] if name.endswith("digest_kept") else b"", B.enc_str(bytes(c)), sec["priv"])
        if name == "auth_cleared_plain":
            return build(2, b"", scoped, sec["priv"])
        return build(2, b"", B.enc_str(scoped), sec["priv"])
    if name.startswith("report_") or name == "response_as_report_tag":
        stat = (1, 3, 6, 1, 6, 3, 15, 1, 1, 2, 0)
        if name == "report_known_oid":
            vbs = [(stat, ("c32", 7))]
        elif name == "report_unknown_oid":
            vbs = [((1, 3, 6, 1, 4, 1, 9999, 1, 0), ("c32", 7))]
        elif name == "report_empty_bindings":
            vbs = []
        elif name in ("report_boots_ahead", "report_time_ahead"):
            vbs = [(stat, ("c32", 7))]
        elif name.startswith("report_error_status"):
            vbs = [(o, ("null", None)) for o, _ in authentic_pdu["vbs"]]
        else:
            vbs = [(o, FORGED_VALUE) for o, _ in authentic_pdu["vbs"]] or [(BASE + (9, 9), FORGED_VALUE)]
        rep = S.mkpdu(S.PDU_REPORT, authentic_pdu["rid"], vbs)
        if name == "report_error_status_nosuchname":
            rep = S.mkpdu(S.PDU_REPORT, authentic_pdu["rid"], vbs, es=2, ei=1 if vbs else 0)   # SNMPv1's end-of-MIB signal
        elif name == "report_error_status_toobig":
            rep = S.mkpdu(S.PDU_REPORT, authentic_pdu["rid"], [], es=1, ei=0)
        sc_bytes = S.enc_scoped(ctx_engine, ctx_name, S.enc_pdu(rep))
        if name == "report_authflag_baddigest":
            return signed(1, wrong_key, sc_bytes)
        if name in ("report_boots_ahead", "report_time_ahead"):
            # an unauthenticated Report announcing a later boot cycle / clock: nothing of it may be adopted
            s2 = dict(sec, auth=b"", priv=b"")
            if name == "report_boots_ahead":
                s2["boots"] = sec["boots"] + 5
            else:
                s2["time"] = sec["time"] + 100000
            return S.enc_v3_msg(msg["msg_id"], 65507, 0, 3, S.enc_usm_params(s2), sc_bytes)
        return build(0, b"", sc_bytes)
    raise ValueError(name)


def execute(plan: dict) -> dict:
    base = _run(plan, None)
    violation = None
    sc = plan["scenario"]

    def fail(clause: str, d: str) -> None:
        nonlocal violation
        if violation is None:
            violation = {"clause": clause, "detail": "%s | scenario=%s attack=%s" % (d, sc, plan["attack"])}

    probes = {k: 0 for k in PROBES}
    probes["authpriv"] = int(sc["level"] == 3)
    probes["walk_target_later_response"] = int(plan["target"] > 1)
    probes["keys_configured_after_noauth_phase"] = int(plan["attack"].get("prior") == "noauth")
    digests = [base["digest"]]
    exchanges, sim_s = base["exchanges"], base["sim_s"]
    twins = delivered = tolerated = hangs = 0
    if base["exc"] is not None:
        fail("baseline-failed", "the un-attacked exchange raised %s: %s" % (type(base["exc"]).__name__, base["exc"]))
    R = base["seen"].get(plan["target"] + base.get("target_shift", 0))
    attack = plan["attack"]
    todo: List[Tuple[str, Any]] = []
    if violation is None and R is not None:
        if attack["kind"] == "flips":
            for byte in range(attack["bytes"][0], min(attack["bytes"][1], len(R))):
                for bit in range(8):
                    todo.append(("flip %d.%d" % (byte, bit), (byte, bit)))
        elif attack["kind"] == "digest1":
            for v in range(attack["values"][0], attack["values"][1]):
                todo.append(("one-octet digest %02x on altered content" % v, ("d1", v)))
        elif attack["kind"] == "flip1":
            if attack["byte"] < len(R):
                todo.append(("flip %d.%d" % (attack["byte"], attack["bit"]), (attack["byte"], attack["bit"])))
        else:
            todo.append((attack["name"], None))
        parsed = S.decode_message(R)
        auth_off = parsed["auth_off"][0]
        data_start = parsed["root"].children[3].start
    for label, arg in todo:
        if arg is not None and arg[0] == "d1":
            def rewrite(data: bytes, agent: Any, v: int = arg[1]) -> Optional[bytes]:
                return _forge("digest_1", plan, data, agent, digest_octet=v)
            arg = None
            attack = dict(attack, name="digest_1")
        elif arg is not None:
            byte, bit = arg

            def rewrite(data: bytes, agent: Any, byte: int = byte, bit: int = bit) -> Optional[bytes]:
                b = bytearray(data)
                b[byte] ^= 1 << bit
                return bytes(b)
            if auth_off <= byte < auth_off + 12:
                probes["flip_in_digest"] = 1
            elif byte >= data_start:
                probes["flip_in_pdu_or_cipher"] = 1
            else:
                probes["flip_in_header"] = 1
        else:
            name = attack["name"]

            def rewrite(data: bytes, agent: Any, name: str = name) -> Optional[bytes]:
                return _forge(name, plan, data, agent)
        t = _run(plan, rewrite)
        twins += 1
        digests.append(t["digest"])
        exchanges += t["exchanges"]
        sim_s += t["sim_s"]
        if not t["delivered"]:
            continue
        delivered += 1
        hangs += int(t["hang"])
        is_report = arg is None and (attack["name"].startswith("report_") or attack["name"] == "response_as_report_tag")
        if arg is None:
            probes["forgery_delivered"] = 1
            probes["report_forgery"] |= int(is_report)
            probes["downgrade_forgery"] |= int(attack["name"].startswith(("flags", "priv_cleared", "auth_cleared")))
        if not t["hang"] and t["follow"] != base["follow"]:
            fail("poisoned-by-unauthentic-message", "%s: the next request on the same client gave %r, after the un-attacked "
                 "exchange it gives %r" % (label, t["follow"], base["follow"]))
        if t["exc"] is None:
            if is_report:
                fail("report-accepted", "%s: an unauthenticated Report was returned as a result: %r" % (label, t["res"]))
            elif t["res"] != base["res"]:
                fail("forgery-accepted", "%s: call returned %r, the authentic response carried %r" % (
                    label, t["res"], base["res"]))
            else:
                tolerated += 1
                probes["flip_tolerated_same_result"] = 1
        if violation is not None:
            break
    counters = dict(base["counters"])
    counters["twins"] = twins
    counters["twins_delivered"] = delivered
    counters["fault_rewrite"] = delivered
    counters["tolerated_same_result"] = tolerated
    counters["client_spins_cut_by_call_budget"] = hangs
    for kk, v in probes.items():
        counters["probe_" + kk] = v
    return {
        "violation": violation, "digest": hashlib.sha256("".join(digests).encode()).hexdigest(), "triggers": [],
        "counters": counters, "shape": repr((sorted(sc.items()), sorted(attack.items()))),
        "nontrivial": delivered > 0, "sim_s": sim_s, "exchanges": exchanges,
        # every delivered twin is a distinct (scenario, transformation) pair by construction
        "n_evals": max(1, twins), "n_distinct": delivered,
        "summary": "%s %s: %d twins, %d delivered, %d tolerated" % (sc, attack, twins, delivered, tolerated),
    }


def describe(plan: dict) -> str:
    return "scenario=%s attack=%s target response #%d" % (plan["scenario"], plan["attack"], plan["target"])
