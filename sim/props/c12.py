"""C12 - discovery happens first and timeliness is kept for the client's whole life."""
from __future__ import annotations

import asyncio
from typing import Any, Dict, List, Optional

from .. import gen, scen
from .. import refsnmp as S
from ..runner import rng_for
from ..world import PASSWORDS, World, agent_for

ID = "C12"
LEVEL = "exploration"
RULE = ("Seeded histories on one SNMPv3 client (3-25 steps): request (get, multiget, getnext, set, bulkget, walk), time passes "
        "(1 s .. 149 s, 150-151 s, 10 min, 1 h, 1 d, 30 d of virtual time), agent reboot (boots+1, time restarts - the crash/"
        "restart of the only node with durable state), administrative forward step of the agent clock, slow agent; all three "
        "security levels; separately faults of the FIRST discovery exchange (foreign msgID, no bindings, wrong PDU type, reply lost); "
        "after a lost or refused reply the history goes on: the next request must start with a discovery probe again and from "
        "then on everything holds as for a fresh client (a client that repeats a lost probe by itself is equally fine; a lost reply "
        "may only surface as Timeout; the caller may also abandon its first request (wait_for) while the probe is in flight); the client may be switched to SNMPv2c credentials and back (configure), immediately or "
        "after 200 s / 1 h. Oracle: first datagram "
        "is the RFC 3414 section 4 probe, later requests carry the discovered engine id (security and default context engine "
        "id); a foreign-msgID reply is refused and nothing with credentials follows; in a history without discontinuity the "
        "agent never answers notInTimeWindow and every request returns the model result; after a reboot/step requests may fail "
        "until the client has received one post-discontinuity message, afterwards they succeed again (bounded recovery). "
        "Non-trivial: >=2 requests with time passing or a discontinuity between them; distinct = distinct (level, sequence of "
        "step classes, outcomes).")
ASSUMPTIONS = [
    "a conformant agent increments snmpEngineBoots whenever its clock would go backwards; backward steps without a reboot are not generated",
    "the oracle never demands that a request succeed while it is physically impossible (the client cannot foresee a reboot)",
    "clock drift is modelled as a constant rate of the agent's engine clock relative to virtual time (0.5 ... 1.5, exaggerated "
    "on purpose); a request is required to succeed only if the drift accumulated since the client last heard from the agent "
    "is below 140 s - beyond that no client can be in time and bounded recovery is required instead",
]
PROBES = ["disco_cancelled", "other_family_and_back", "rediscovery_after_failed_discovery", "disco_lost", "passes_150s", "passes_days", "reboot", "clock_step", "slow_agent", "recovered_after_discontinuity",
          "failed_right_after_discontinuity", "disco_foreign_msgid", "disco_no_bindings", "disco_wrong_pdu", "level_auth",
          "level_priv", "configured_context_engine", "drift_within_window", "drift_beyond_window", "slow_agent_clock",
          "fast_agent_clock", "discovery_without_timing", "old_response_replayed"]
shrink_lists = [("steps",)]
BASE = (1, 3, 6, 1, 2, 1, 7)
DELTAS = [1, 30, 149, 150, 151, 600, 3600, 86400, 30 * 86400]
OPS = ["get", "get", "multiget", "getnext", "set", "bulkget", "walk"]
DISCO_FAULTS = ["foreign_msgid", "no_bindings", "wrong_pdu", "lost", "lost", "foreign_msgid", "cancelled", "cancelled"]


def total(tier: str) -> int:
    return 3000 if tier == "quick" else 120000


def plan_for(tier: str, seed: int, i: int) -> dict:
    rng = rng_for(seed, ID, tier, i)
    level = rng.choice([0, 1, 1, 3, 3])
    proto: Dict[str, Any] = {"version": "v3", "user": "alice", "level": level}
    if level & 1:
        proto.update({"auth": rng.choice(["md5", "sha1"]), "auth_pass": rng.choice(PASSWORDS)})
    if level & 2:
        proto.update({"priv": rng.choice(["verifstream", "verifstream2"]), "priv_pass": rng.choice(PASSWORDS)})
    steps: List[list] = []
    for _ in range(rng.randrange(3, 26)):
        r = rng.random()
        if r < 0.5:
            steps.append(["req", rng.choice(OPS)])
        elif r < 0.8:
            steps.append(["pass", rng.choice(DELTAS)])
        elif r < 0.88:
            steps.append(["reboot"])
        elif r < 0.92:
            steps.append(["step", rng.choice([151, 1000, 86400])])
        elif r < 0.95:
            steps.append(["replay"])      # an on-path attacker answers the next request with an OLD authentic response
        else:
            steps.append(["slow", rng.choice([1, 2, 3])])
    # the client is switched to another credential family and back (configure): whatever it keeps or forgets about the
    # engine, the SNMPv3 requests that follow must be in time like any other
    trng = rng_for(seed, ID, tier + ":trip", i)
    if trng.random() < 0.15:
        for _ in range(trng.randrange(1, 3)):
            steps.insert(trng.randrange(1, len(steps) + 1), ["roundtrip", trng.choice([0, 0, 200, 3600])])
    steps.append(["req", "get"])
    disco_fault = rng.choice(DISCO_FAULTS) if rng.random() < 0.12 else None
    return {"prop": ID, "proto": proto, "steps": steps, "disco_fault": disco_fault,
            "boots": rng.choice([0, 1, 7, 2**20]), "time0": rng.choice([0, 100, 149, 10**6, 2**31 - 10**8]),
            "engine_cfg": gen.gen_bytes(rng, 12) if rng.random() < 0.2 else b"", "ctx_echo": rng.random() < 0.3, "ctx_other": rng.random() < 0.15,
            # clock drift: the agent's engine clock runs slower or faster than the client's monotonic clock
            "rate": rng.choice([1.0, 1.0, 1.0, 1.0, 0.5, 0.75, 1.25, 1.5]),
            # RFC 3414 section 4: the discovery Report need not disclose boots/time (0/0); an authenticated user then
            # learns them from the notInTimeWindow Report that answers its first request
            "disco_hides_timing": rng_for(seed, ID, tier + ":hide", i).random() < 0.12}


def valid(plan: dict) -> bool:
    return any(s[0] == "req" for s in plan["steps"])


def simplify(plan: dict):
    if plan["proto"]["level"] == 3:
        p = dict(plan)
        p["proto"] = {k: v for k, v in plan["proto"].items() if not k.startswith("priv")}
        p["proto"]["level"] = 1
        yield p
    for i, s in enumerate(plan["steps"]):
        if s[0] == "req" and s[1] != "get":
            p = dict(plan); p["steps"] = list(plan["steps"]); p["steps"][i] = ["req", "get"]; yield p
        if s[0] == "pass" and s[1] not in (151,):
            p = dict(plan); p["steps"] = list(plan["steps"]); p["steps"][i] = ["pass", 151]; yield p
    if plan["time0"] != 100:
        p = dict(plan); p["time0"] = 100; yield p
    if plan.get("rate", 1.0) != 1.0:
        p = dict(plan); p["rate"] = 1.0; yield p
    if plan.get("disco_hides_timing"):
        p = dict(plan); p["disco_hides_timing"] = False; yield p
    if plan["engine_cfg"]:
        p = dict(plan); p["engine_cfg"] = b""; yield p


def execute(plan: dict) -> dict:
    proto = plan["proto"]
    level = proto["level"]
    w = World()
    mib = {BASE + (1, 1, 1): ("str", b"value"), BASE + (1, 1, 2): ("int", 42), BASE + (1, 2, 1): ("c32", 7)}
    agent = w.add_agent(agent_for(proto, mib, boots=plan["boots"], time0=plan["time0"]))
    agent.report_ctx_echo = bool(plan.get("ctx_echo"))
    if plan.get("ctx_other"):
        agent.report_ctx_other = b"\x80\x00\x1f\x88\x04proxied-context"
    rate = float(plan.get("rate", 1.0))
    agent.rate = rate   # Reports may echo the request's context engine id (RFC 3412 7.1)
    slow = {"s": 0}
    first_disco = {"pending": plan.get("disco_fault") == "cancelled"}

    def delay_for(req: dict) -> int:
        if req.get("discovery"):
            if first_disco["pending"]:
                first_disco["pending"] = False
                return 2048        # the reply to the first probe is 2 s away; the caller gives up after 0.5 s
            return 0
        return slow["s"] * 1024
    agent.delay_for = delay_for
    fault = plan.get("disco_fault")
    fault_state = {"fired": False}
    if fault == "lost":
        w.net.explicit[("a2c", 0)] = [("drop", 0)]     # the reply to the first probe never arrives

    def hook_v3(req: dict, f: dict) -> dict:
        if req.get("discovery") and plan.get("disco_hides_timing") and not fault:
            return dict(f, boots=0, time=0)
        if req.get("discovery") and fault and not fault_state["fired"]:
            fault_state["fired"] = True                  # only the first discovery exchange is disturbed
            if fault == "foreign_msgid":
                return dict(f, msg_id=(f["msg_id"] + 17) % (2**31))
            if fault == "no_bindings":
                return dict(f, pdu=dict(f["pdu"], vbs=[]))
            if fault == "wrong_pdu":
                return dict(f, pdu=dict(f["pdu"], tag=S.PDU_RESPONSE, vbs=[]))
        return f
    agent.hook_v3 = hook_v3
    client = w.client(proto, timeout=5, retries=1, engine_id=plan["engine_cfg"])
    captured: List[bytes] = []
    replay_armed = [False]
    replayed = [False]

    def rewriter(direction: str, idx: int, data: bytes) -> Optional[bytes]:
        if direction != "a2c":
            return None
        try:
            m = S.decode_message(data)
        except Exception:  # noqa: BLE001
            return None
        is_data = m["version"] == 3 and (m["encrypted"] is not None or (m["scoped"] and m["scoped"]["pdu"]["tag"] == S.PDU_RESPONSE))
        if replay_armed[0] and captured and is_data:
            replay_armed[0] = False
            replayed[0] = True
            return captured[0]
        if is_data and not captured:
            captured.append(data)
        return None
    w.net.rewriter = rewriter
    o1, o2, o3 = sorted(mib)
    violation = None
    outcomes: List[str] = []
    classes: List[str] = []
    probes = {k: 0 for k in PROBES}
    probes["level_auth"] = int(level == 1)
    probes["level_priv"] = int(level == 3)
    probes["configured_context_engine"] = int(bool(plan["engine_cfg"]))
    probes["slow_agent_clock"] = int(rate < 1.0)
    probes["discovery_without_timing"] = int(bool(plan.get("disco_hides_timing")) and not fault)
    probes["fast_agent_clock"] = int(rate > 1.0)
    # a discontinuity happened (or the agent did not disclose its clock at discovery) and the client has not yet
    # received an authenticated message from the agent since
    pending = bool(plan.get("disco_hides_timing")) and level > 0 and not fault
    rediscover = fault_done = False
    last_heard = 0.0         # virtual instant of the last message the client received from the agent
    nreq = 0
    time_between = False

    def fail(clause: str, d: str) -> None:
        nonlocal violation
        if violation is None:
            violation = {"clause": clause, "detail": "%s | history so far: %s" % (d, " ".join(classes))}

    for step in plan["steps"]:
        kind = step[0]
        if kind == "pass":
            async def nap(d: int = step[1]) -> None:
                await asyncio.sleep(d)
            w.run(nap())
            classes.append("pass%d" % step[1])
            probes["passes_150s"] |= int(step[1] >= 150)
            probes["passes_days"] |= int(step[1] >= 86400)
            time_between = time_between or nreq > 0
            continue
        if kind == "reboot":
            agent.reboot(w.loop.time())
            pending = level > 0
            classes.append("reboot")
            probes["reboot"] = 1
            continue
        if kind == "step":
            agent.clock_step(w.loop.time(), step[1])
            pending = level > 0
            classes.append("step%d" % step[1])
            probes["clock_step"] = 1
            continue
        if kind == "replay":
            replay_armed[0] = bool(captured)
            classes.append("replay")
            continue
        if kind == "roundtrip":
            from puresnmp.credentials import V2C as _V2C
            from ..world import make_credentials
            client.configure(credentials=_V2C("public"))
            if step[1]:
                async def nap2(d: int = step[1]) -> None:
                    await asyncio.sleep(d)
                w.run(nap2())
                time_between = time_between or nreq > 0
            client.configure(credentials=make_credentials(proto))
            if plan.get("disco_hides_timing") and not plan.get("disco_fault"):
                pending = level > 0      # a new discovery that does not disclose the clock: one request to synchronise again
            classes.append("v2c-and-back(%ds)" % step[1])
            probes["other_family_and_back"] = 1
            continue
        if kind == "slow":
            slow["s"] = step[1]
            classes.append("slow%d" % step[1])
            probes["slow_agent"] = 1
            continue
        opname = step[1]
        op = {"get": {"op": "get", "oid": o1}, "multiget": {"op": "multiget", "oids": [o1, o2, o3]},
              "getnext": {"op": "getnext", "oid": BASE + (1, 1)},
              "set": {"op": "set", "oid": o2, "val": ("int", 42)},
              "bulkget": {"op": "bulkget", "scalars": [o2], "repeaters": [BASE + (1,)], "maxrep": 2},
              "walk": {"op": "walk", "root": BASE + (1, 1)}}[opname]
        before = len(agent.requests)
        res = exc = None
        if rate != 1.0 and level > 0 and nreq > 0:
            # drift accumulated since the client last heard from the agent: beyond the window no client can be in time
            drift = (w.loop.time() - last_heard) * abs(1.0 - rate)
            probes["drift_within_window"] |= int(0 < drift <= 140)
            if drift > 140:
                pending = True
                probes["drift_beyond_window"] = 1

        give_up = fault == "cancelled" and nreq == 0

        async def one() -> Any:
            if give_up:
                # the caller abandons its first request while the discovery exchange is still in flight
                return await asyncio.wait_for(scen.do_op(client, op), 0.5)
            return await scen.do_op(client, op)
        try:
            res = w.run(one())
        except asyncio.CancelledError as e:      # a cancellation nobody asked for is an outcome to be judged, not a harness error
            exc = e
        except Exception as e:  # noqa: BLE001
            exc = e
        if give_up:
            async def late_reply() -> None:
                await asyncio.sleep(3)               # the late discovery reply arrives at a socket that is gone
            w.run(late_reply())
        slow["s"] = 0
        nreq += 1
        new = agent.requests[before:]
        excname = type(exc).__name__ if exc else None
        outcomes.append(excname or "ok")
        classes.append("req:%s:%s" % (opname, excname or "ok"))
        was_pending = pending
        got_replay, replayed[0] = replayed[0], False
        replay_armed[0] = False
        if got_replay:
            probes["old_response_replayed"] = 1
            # no verdict on the attacked request itself (request ids are clock readings: the old response may even
            # carry the same id); what follows must not suffer from it
            continue
        # --- discovery clauses --------------------------------------------------------------
        if before == 0:
            first = new[0] if new else None
            if first is None or not first.get("discovery"):
                fail("no-discovery-first", "the first datagram of the client is not the discovery probe")
            elif first["msg"]["flags"] != 4 or first["msg"]["scoped"] is None or first["msg"]["scoped"]["pdu"]["vbs"]:
                fail("discovery-probe", "the discovery probe is not noAuthNoPriv/reportable with an empty binding list")
        if rediscover:
            # the first discovery exchange failed (reply lost or refused): no request has been made yet, so this one has
            # to start with a discovery probe again - and from here on everything holds as for a fresh client
            rediscover = False
            probes["rediscovery_after_failed_discovery"] = 1
            first = new[0] if new else None
            if first is None or not first.get("discovery"):
                fail("no-discovery-first", "after a failed discovery exchange the next request did not start with a discovery probe")
        if fault and not fault_done:
            fault_done = True
            probes["disco_" + fault] = 1
            if fault in ("foreign_msgid", "no_bindings"):
                if exc is None:
                    fail("bad-discovery-accepted", "discovery reply with %s was accepted" % fault)
                if any(not r.get("discovery") for r in new):
                    fail("request-after-bad-discovery", "a request with credentials followed the failed discovery exchange")
            if fault == "lost" and exc is not None:
                # nothing arrived: the only thing the client can know is that its probe timed out
                if excname != "Timeout":
                    fail("raised:" + excname, "the reply to the first discovery probe was lost; the request ended in %s: %s" % (excname, exc))
                if any(not r.get("discovery") for r in new):
                    fail("request-after-bad-discovery", "a request with credentials followed the failed discovery exchange")
            if fault == "cancelled":
                if excname not in ("TimeoutError", "CancelledError"):
                    fail("raised:%s" % excname, "the caller gave up during discovery; the abandoned call ended with %s" % (excname or "a result"))
                rediscover = True
                continue
            if fault == "foreign_msgid" or (fault == "lost" and exc is not None):
                rediscover = True
                continue
            if fault == "lost":
                pass      # the client repeated the probe by itself and went on: judged like any other request below
            else:
                break  # a reply without bindings / of the wrong type may or may not be taken as discovery: history not judged
        for r in new:
            if r.get("discovery") or r["msg"] is None or r["msg"].get("sec") is None:
                continue
            if r["msg"]["sec"]["engine_id"] != agent.engine_id:
                fail("engine-id", "request carries msgAuthoritativeEngineID %r" % r["msg"]["sec"]["engine_id"])
            sc = r.get("scoped")
            if sc is not None and sc["ctx_engine"] != (plan["engine_cfg"] or agent.engine_id):
                fail("context-engine-id", "request carries contextEngineID %r" % sc["ctx_engine"])
        verdicts = [r["verdict"] for r in new]
        heard = any(r["responses"] for r in new)
        if heard:
            last_heard = w.loop.time()
        if was_pending:
            if exc is not None:
                probes["failed_right_after_discontinuity"] = 1
            if heard:
                pending = False
        else:
            if "report:not_in_window" in verdicts:
                fail("not-in-time-window", "agent answered notInTimeWindow (request time delta %s s) without any discontinuity" % (
                    [r.get("time_delta") for r in new if r["verdict"] == "report:not_in_window"],))
            elif exc is not None:
                fail("raised:" + excname, "request failed without discontinuity: %s: %s (verdicts %s)" % (excname, exc, verdicts))
            else:
                want: Any = None
                if opname == "get":
                    want = mib[o1]
                elif opname == "multiget":
                    want = [mib[o1], mib[o2], mib[o3]]
                elif opname == "getnext":
                    want = (o1, mib[o1])
                elif opname == "walk":
                    want = [(o1, mib[o1]), (o2, mib[o2])]
                if want is not None and res != want:
                    fail("wrong-result", "%s returned %r" % (opname, res))
                if "reboot" in classes or any(c.startswith("step") for c in classes):
                    probes["recovered_after_discontinuity"] = 1
        if violation is not None:
            break
    w.settle()
    counters = dict(w.net.counters)
    counters["not_in_window_reports"] = agent.stats["not_in_window"]
    for kk, v in probes.items():
        counters["probe_" + kk] = v
    shape_classes = tuple(c.split(":")[0] + (":" + c.split(":")[2] if c.startswith("req") else "") for c in classes)
    out = {
        "violation": violation, "digest": w.net.digest(), "triggers": [], "counters": counters,
        "shape": repr((level, shape_classes[:40], fault)),
        "nontrivial": nreq >= 2 and (time_between or probes["reboot"] or probes["clock_step"]) or bool(fault),
        "sim_s": w.loop.time(), "exchanges": agent.exchanges,
        "summary": "level=%d %s" % (level, " ".join(classes)[:200]),
    }
    w.close()
    return out


def describe(plan: dict) -> str:
    return "proto=%s boots=%d time0=%d disco_fault=%s cfg_engine=%r\nsteps=%s" % (
        {k: v for k, v in plan["proto"].items() if "pass" not in k}, plan["boots"], plan["time0"], plan["disco_fault"],
        plan["engine_cfg"], plan["steps"])
