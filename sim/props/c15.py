"""C15 - the pythonic wrapper returns only built-in Python types, equal to the raw results."""
from __future__ import annotations

import hashlib
from datetime import timedelta
from ipaddress import IPv4Address
from typing import Any, Dict, List, Optional

from .. import gen, scen
from .. import refsnmp as S
from ..runner import rng_for
from ..world import World, agent_for, gen_proto

ID = "C15"
LEVEL = "exploration"
RULE = ("Seeded plans: each of the eleven PyWrapper operations (get, getnext, multiget, set, multiset, walk, multiwalk, "
        "bulkwalk, bulkget, table, bulktable) over databases containing every SNMP value type (exception markers where the "
        "operation can return them), v1/v2c/v3. The wrapper call and the raw Client call run as exact twins (byte-identical "
        "exchanges, by determinism). Oracle: (1) deep inspection - outside the documented containers PyVarBind and BulkResult "
        "every object, dictionary keys included, is str/int/bytes/timedelta/IPv4Address/None/list/tuple/dict; (2) the structure "
        "equals the element-wise conversion of the raw result by an independent table (TimeTicks n -> "
        "timedelta(microseconds=10000*n), IpAddress -> IPv4Address, OID -> dotted str). Non-trivial: the wrapper returned a "
        "value; distinct = distinct (operation, protocol, multiset of value kinds returned).")
ASSUMPTIONS = [
    "no fault or schedule dimension: the simulator supplies the reference agent and the exact twin run",
    "OrderedDict counts as dict; PyVarBind (a tuple subclass) and BulkResult are the documented containers",
]
PROBES = ["wrapper_fetched_another_table_before", "timeticks", "ipaddress", "oid_value", "counter64", "opaque", "exception_marker", "bulkget_keys", "table_rows",
          "multiset_keys", "v1", "v3", "sparse_table", "set_confirmed_differently", "stalling_agent_walk", "reordered_set_response"]
shrink_lists = [("mib",)]
OPS = ["get", "getnext", "multiget", "set", "multiset", "walk", "multiwalk", "bulkwalk", "bulkget", "table", "bulktable"]
BASE = (1, 3, 6, 1, 2, 1, 7)
BASE2 = (1, 3, 6, 1, 2, 1, 8)
ALLOWED = (str, int, bytes, timedelta, IPv4Address, type(None), list, tuple, dict)


def total(tier: str) -> int:
    return 3000 if tier == "quick" else 60000


def plan_for(tier: str, seed: int, i: int) -> dict:
    rng = rng_for(seed, ID, tier, i)
    proto = gen_proto(rng, versions=("v1", "v2c", "v2c", "v3"))
    version = proto["version"]
    kinds = [k for k in gen.ALL_KINDS if not (version == "v1" and k == "c64")]
    mib = {}
    density = rng.choice([1.0, 1.0, 0.7, 0.5])      # sparse tables: rows lacking columns other rows have
    rows = [(r,) for r in range(1, rng.randrange(2, 5))]
    if rng.random() < 0.25:
        rows = [(r, rng.randrange(0, 300)) for r in range(1, rng.randrange(2, 5))]   # two-component index
    for c in range(1, rng.randrange(2, 5)):
        for r in rows:
            if rng.random() <= density:
                mib[BASE + (1, c) + r] = gen.gen_value(rng, kinds=kinds, max_str=30)
    if not mib:
        mib[BASE + (1, 1) + rows[0]] = gen.gen_value(rng, kinds=kinds, max_str=30)
    keys = sorted(mib)
    opk = rng.choice([k for k in OPS if not (version == "v1" and k.startswith("bulk"))])
    if opk in ("get",):
        op = {"op": opk, "oid": rng.choice(keys)}
    elif opk == "getnext":
        op = {"op": opk, "oid": rng.choice(keys[:-1] or [BASE])}
    elif opk == "multiget":
        op = {"op": opk, "oids": [rng.choice(keys) if rng.random() < 0.85 else BASE + (1, 9, 9)
                                  for _ in range(rng.randrange(1, 7))]}
        if version == "v1":
            op["oids"] = [o for o in op["oids"] if o in mib] or [keys[0]]
    elif opk == "set":
        op = {"op": opk, "oid": rng.choice(keys), "val": gen.gen_value(rng, kinds=kinds, max_str=30)}
    elif opk == "multiset":
        op = {"op": opk, "items": [(o, gen.gen_value(rng, kinds=kinds, max_str=30))
                                   for o in rng.sample(keys, min(len(keys), rng.randrange(1, 4)))]}
    elif opk == "walk":
        op = {"op": opk, "root": BASE + (1, rng.choice([1, 2]))}
        if rng.random() < 0.4:
            op["errors"] = rng.choice(["warn", "strict"])
    elif opk == "multiwalk":
        op = {"op": opk, "roots": [BASE + (1, 1), BASE + (1, 2)]}
    elif opk == "bulkwalk":
        op = {"op": opk, "roots": [BASE + (1, 1), BASE + (1, 2)][:rng.randrange(1, 3)], "bulk": rng.choice([1, 3, 10])}
    elif opk == "bulkget":
        op = {"op": opk, "scalars": [rng.choice(keys) for _ in range(rng.randrange(0, 3))],
              "repeaters": [BASE + (1, rng.choice([1, 2, 3]))], "maxrep": rng.choice([1, 3, 10])}
    elif opk == "table":
        op = {"op": opk, "oid": BASE + (1,)}
    else:
        op = {"op": opk, "oid": BASE, "bulk": rng.choice([1, 3, 10])}
    # the agent may confirm a SET with the value it actually stored (normalised), not the one it was sent
    # peer misbehaviour the raw client copes with; the wrapper must cope identically:
    #  - "stall": one GETNEXT answer repeats the requested OID (walks: strict mode raises, lenient mode ends the walk)
    #  - "reorder": the bindings of a SET response come back in another order than requested
    quirk = rng.choice([None, None, None, "stall", "reorder"])
    # history: the same wrapper object has fetched ANOTHER table before (same column numbers, other syntaxes)
    hrng = rng_for(seed, ID, tier + ":pre", i)
    pre = None
    if hrng.random() < 0.3:
        for c in range(1, 4):
            for r in range(1, hrng.randrange(2, 4)):
                mib[BASE2 + (1, c, r)] = gen.gen_value(hrng, kinds=kinds, max_str=30)
        pk = hrng.choice(["table", "walk"] + ([] if version == "v1" else ["bulktable", "bulkwalk"]))
        pre = {"table": {"op": "table", "oid": BASE2 + (1,)}, "bulktable": {"op": "bulktable", "oid": BASE2, "bulk": 3},
               "walk": {"op": "walk", "root": BASE2 + (1, 1)}, "bulkwalk": {"op": "bulkwalk", "roots": [BASE2 + (1, 2)], "bulk": 3}}[pk]
    return {"prop": ID, "proto": proto, "mib": sorted(mib.items()), "op": op, "normalise": rng.random() < 0.5,
            "quirk": quirk, "pre": pre}


def simplify(plan: dict):
    if plan.get("pre"):
        p = dict(plan); p["pre"] = None; yield p
    if plan.get("quirk"):
        p = dict(plan); p["quirk"] = None; yield p
    if plan["proto"]["version"] != "v2c":
        p = dict(plan); p["proto"] = {"version": "v2c", "community": "public"}; yield p


def _deep(obj: Any, path: str, bad: List[str], in_container: bool = False) -> None:
    from puresnmp.util import BulkResult
    from puresnmp.varbind import PyVarBind
    if isinstance(obj, BulkResult):
        _deep(obj.scalars, path + ".scalars", bad)
        _deep(obj.listing, path + ".listing", bad)
        return
    if isinstance(obj, PyVarBind):
        _deep(obj.oid, path + ".oid", bad)
        _deep(obj.value, path + ".value", bad)
        return
    if not isinstance(obj, ALLOWED) or type(obj).__module__ not in ("builtins", "datetime", "ipaddress", "collections"):
        bad.append("%s is %s.%s" % (path, type(obj).__module__, type(obj).__name__))
        return
    if isinstance(obj, dict):
        for k, v in obj.items():
            _deep(k, path + ".key(%r)" % (str(k)[:30],), bad)
            _deep(v, path + "[%r]" % (str(k)[:30],), bad)
    elif isinstance(obj, (list, tuple)):
        for n, v in enumerate(obj):
            _deep(v, "%s[%d]" % (path, n), bad)


def _convert(opk: str, raw: Any) -> Any:
    """Element-wise independent pythonisation of the raw (reference-form) result."""
    py = scen.pythonize_ref
    s = S.oid_str
    if opk in ("get", "set"):
        return py(raw)
    if opk == "getnext":
        return (s(raw[0]), py(raw[1]))
    if opk == "multiget":
        return [py(v) for v in raw]
    if opk == "multiset":
        return {s(o): py(v) for o, v in raw}
    if opk in ("walk", "multiwalk", "bulkwalk"):
        return [(s(o), py(v)) for o, v in raw]
    if opk == "bulkget":
        return ({s(o): py(v) for o, v in raw["scalars"]}, [(s(o), py(v)) for o, v in raw["listing"]])
    if opk in ("table", "bulktable"):
        rows = []
        for idx, cells in raw:
            rows.append(sorted((k, (v if k == "0" else py(v))) for k, v in cells))
        return sorted(rows, key=repr)
    raise ValueError(opk)


def _normalise_py(opk: str, res: Any) -> Any:
    if opk == "getnext":
        return (res.oid, res.value)
    if opk in ("walk", "multiwalk", "bulkwalk"):
        return [(vb.oid, vb.value) for vb in res]
    if opk == "bulkget":
        return ({(k if isinstance(k, str) else "<%s>%s" % (type(k).__name__, k)): v for k, v in res.scalars.items()},
                [((k if isinstance(k, str) else "<%s>%s" % (type(k).__name__, k)), v) for k, v in res.listing.items()])
    if opk in ("table", "bulktable"):
        return sorted([sorted(r.items()) for r in res], key=repr)
    return res


def _normalise_set(oid: tuple, val: Any) -> Any:
    kind, v = val
    if kind in ("str", "opaque"):
        return (kind, bytes(v)[:8])                  # truncated
    if kind in ("int",):
        return (kind, max(-1000, min(1000, v)))      # clamped
    if kind in ("c32", "g32", "tt"):
        return ("tt", v)                             # re-typed by the object's syntax
    return val


def _run(plan: dict, pythonic: bool) -> dict:
    w = World()
    agent = w.add_agent(agent_for(plan["proto"], dict(plan["mib"])))
    if plan.get("normalise"):
        agent.set_normalise = _normalise_set
    if plan.get("quirk") == "stall":
        keys = sorted(o for o, _ in plan["mib"])
        stall_at = keys[len(keys) // 2]

        def succ(oid: tuple, rep: int, req: dict) -> Any:
            nxt = agent.successor(oid, req["version"])
            if oid == stall_at and req["pdu"]["tag"] == S.PDU_GETNEXT:
                return (oid, agent.mib[oid])
            return (oid, ("eom", None)) if nxt is None else (nxt, agent.mib[nxt])
        agent.successor_fn = succ
    elif plan.get("quirk") == "reorder":
        def hook_pdu(req: dict, resp: dict) -> Any:
            if req["pdu"]["tag"] == S.PDU_SET and resp["es"] == 0:
                return dict(resp, vbs=sorted(resp["vbs"], reverse=True))
            return resp
        agent.hook_pdu = hook_pdu
    client = w.client(plan["proto"], timeout=1, retries=1)
    res = exc = None

    async def one() -> Any:
        if plan.get("pre"):
            try:
                await (scen.do_pyop(client, plan["pre"]) if pythonic else scen.do_op(client, plan["pre"]))
            except Exception:  # noqa: BLE001
                pass             # not under test here
        return await (scen.do_pyop(client, plan["op"]) if pythonic else scen.do_op(client, plan["op"]))
    try:
        res = w.run(one())
    except Exception as e:  # noqa: BLE001
        exc = e
    w.settle()
    out = {"res": res, "exc": exc, "digest": w.net.digest(), "wire": [r["raw"] for r in agent.requests],
           "sim_s": w.loop.time(), "exchanges": agent.exchanges, "counters": dict(w.net.counters)}
    w.close()
    return out


def execute(plan: dict) -> dict:
    opk = plan["op"]["op"]
    a = _run(plan, True)
    b = _run(plan, False)
    violation = None

    def fail(clause: str, d: str) -> None:
        nonlocal violation
        if violation is None:
            violation = {"clause": clause, "detail": "%s | op=%s" % (d, plan["op"])}

    an = type(a["exc"]).__name__ if a["exc"] else None
    bn = type(b["exc"]).__name__ if b["exc"] else None
    kinds_seen: List[str] = []
    if a["wire"] != b["wire"]:
        fail("twin-differs", "the wrapper and the raw client did not produce byte-identical requests")
    elif an != bn:
        fail("outcome-differs", "wrapper: %s (%s), raw client: %s (%s)" % (an or "ok", a["exc"], bn or "ok", b["exc"]))
    elif a["exc"] is None:
        bad: List[str] = []
        _deep(a["res"], "result", bad)
        if bad:
            fail("non-builtin-type", "; ".join(bad[:4]))
        else:
            want = _convert(opk, b["res"])
            got = _normalise_py(opk, a["res"])
            if got != want:
                fail("differs-from-raw", "wrapper returned %r, element-wise conversion of the raw result is %r" % (
                    str(got)[:300], str(want)[:300]))
        kinds_seen = _kinds(b["res"])
    probes = {
        "wrapper_fetched_another_table_before": int(bool(plan.get("pre"))),
        "timeticks": int("tt" in kinds_seen), "ipaddress": int("ip" in kinds_seen), "oid_value": int("oid" in kinds_seen),
        "counter64": int("c64" in kinds_seen), "opaque": int("opaque" in kinds_seen),
        "exception_marker": int(any(k in kinds_seen for k in ("nso", "nsi", "eom"))),
        "bulkget_keys": int(opk == "bulkget" and a["exc"] is None), "table_rows": int(opk in ("table", "bulktable") and bool(a["res"])),
        "multiset_keys": int(opk == "multiset" and a["exc"] is None),
        "v1": int(plan["proto"]["version"] == "v1"), "v3": int(plan["proto"]["version"] == "v3"),
        "stalling_agent_walk": int(plan.get("quirk") == "stall" and opk in ("walk", "multiwalk", "table")),
        "reordered_set_response": int(plan.get("quirk") == "reorder" and opk == "multiset" and a["exc"] is None),
        "sparse_table": int(opk in ("table", "bulktable") and a["exc"] is None and len(set(len(r) for r in a["res"])) > 1),
        "set_confirmed_differently": int(opk in ("set", "multiset") and a["exc"] is None and bool(plan.get("normalise"))
                                         and _set_differs(plan["op"], b["res"])),
    }
    counters = dict(a["counters"])
    for kk, v in probes.items():
        counters["probe_" + kk] = v
    return {
        "violation": violation, "digest": hashlib.sha256((a["digest"] + b["digest"]).encode()).hexdigest(), "triggers": [],
        "counters": counters, "shape": repr((opk, plan["proto"]["version"], sorted(set(kinds_seen)), an)),
        "nontrivial": a["exc"] is None, "sim_s": a["sim_s"] + b["sim_s"], "exchanges": a["exchanges"] + b["exchanges"],
        "summary": "%s -> %s" % (opk, an or "ok"),
    }


def _set_differs(op: dict, raw: Any) -> bool:
    if op["op"] == "set":
        return tuple(op["val"]) != tuple(raw)
    return sorted((tuple(o), tuple(v)) for o, v in op["items"]) != sorted((tuple(o), tuple(v)) for o, v in raw)


def _kinds(raw: Any) -> List[str]:
    out: List[str] = []

    def rec(x: Any) -> None:
        if isinstance(x, tuple) and len(x) == 2 and isinstance(x[0], str) and x[0] in S.TAGS:
            out.append(x[0])
        elif isinstance(x, (list, tuple)):
            for y in x:
                rec(y)
        elif isinstance(x, dict):
            for y in x.values():
                rec(y)
    rec(raw)
    return out


def describe(plan: dict) -> str:
    return "proto=%s op=%s\nmib=%s" % ({k: v for k, v in plan["proto"].items() if "pass" not in k}, plan["op"],
                                      [(S.oid_str(tuple(o)), v[0]) for o, v in plan["mib"]])
