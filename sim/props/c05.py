"""C05 - every emitted datagram is the intended request under an independent decoder."""
from __future__ import annotations

import string
from typing import Any, Dict, List, Optional

from .. import gen, scen
from .. import refsnmp as S
from ..refber import BerError
from ..runner import rng_for
from ..agent import RefAgent
from ..world import PASSWORDS, World, agent_user, make_credentials

ID = "C05"
LEVEL = "exploration"
RULE = ("Seeded plans: every API operation (get, multiget, getnext, multigetnext, walk, multiwalk, set, multiset, bulkget, "
        "bulkwalk, table, bulktable, and the v3 discovery probe) with OIDs of 2-128 arcs (sub-identifiers 0, 127, 128, 16383, "
        "16384, 2^21, 2^28, 2^32-1), SET values of every type over their ranges (strings to 2000 octets), wall-clock epochs "
        "making request ids cross every INTEGER length boundary inside Integer32, communities (printable ASCII, 0-64), context "
        "names, configured context engine ids, agent engine ids of 5-32 octets, v1/v2c/v3 x 3 levels; in a third of the plans "
        "the credentials (same or other family) and the context change between operations (Client.configure) and every later "
        "datagram must follow the configuration in force when it is sent. Every datagram handed to "
        "the recording sender seam is decoded by the independent strict decoder and compared with the intent record. "
        "Non-trivial: >=1 datagram compared; distinct = distinct (protocol level, operation sequence, request-id byte length, "
        "longest OID class, SET kinds).")
ASSUMPTIONS = [
    "OIDs start with arcs x.y where x<=2 and y<40 (the SNMP name space); other first arcs are outside the property",
    "there is no fault dimension: the environment inputs are the wall clock and the discovery reply",
]
PROBES = ["oid_128_arcs", "subid_2_32", "str_2000", "rid_1_octet", "rid_2_octets", "rid_3_octets", "rid_4_octets",
          "community_empty", "community_64", "context_name", "configured_engine_id", "engine_id_32", "v1", "v3_priv",
          "walk_followup", "c64_set", "reconfigured", "read_then_write", "context_changed"]
shrink_lists = [("ops",)]
ALL_OPS = ["get", "multiget", "getnext", "multigetnext", "walk", "multiwalk", "set", "multiset", "bulkget", "bulkwalk",
           "table", "bulktable"]
PRINTABLE = string.ascii_letters + string.digits + string.punctuation + " "


def total(tier: str) -> int:
    return 3000 if tier == "quick" else 100000


def _gen_oid(rng: Any, base: tuple) -> tuple:
    r = rng.random()
    if r < 0.5:
        return base + tuple(rng.randrange(0, 5) for _ in range(rng.randrange(1, 4)))
    if r < 0.6:
        n = rng.choice([2, 3, 64, 127, 128])
        head = (rng.choice([0, 1, 2]), rng.randrange(0, 40))
        return (head + tuple(rng.choice(gen.BIG_ARCS) if rng.random() < 0.2 else rng.randrange(0, 200)
                             for _ in range(n - 2)))[:128]
    return base + tuple(rng.choice(gen.BIG_ARCS) for _ in range(rng.randrange(1, 5)))


def _gen_set_value(rng: Any) -> S.Value:
    if rng.random() < 0.1:
        n = rng.choice([126, 127, 128, 255, 256, 1000, 2000])
        return (rng.choice(["str", "opaque"]), gen.gen_bytes(rng, n))
    return gen.gen_value(rng, max_str=300)


def plan_for(tier: str, seed: int, i: int) -> dict:
    rng = rng_for(seed, ID, tier, i)
    version = rng.choice(["v1", "v2c", "v2c", "v3", "v3", "v3"])
    proto: Dict[str, Any] = {"version": version}
    if version != "v3":
        n = rng.choice([0, 1, 6, 6, 31, 64, rng.randrange(0, 65)])
        proto["community"] = "".join(rng.choice(PRINTABLE) for _ in range(n))
    else:
        level = rng.choice([0, 1, 3])
        proto.update({"user": rng.choice(["alice", "u", "a-much-longer-user-name-0123456789"]), "level": level})
        if level & 1:
            proto.update({"auth": rng.choice(["md5", "sha1"]), "auth_pass": rng.choice(PASSWORDS)})
        if level & 2:
            proto.update({"priv": rng.choice(["verifstream", "verifstream2"]), "priv_pass": rng.choice(PASSWORDS)})
    base = (1, 3, 6, 1, 4, 1, rng.choice([9, 2021, 2**32 - 1]))
    mib = {}
    for _ in range(rng.randrange(2, 10)):
        mib[base + (1, rng.randrange(1, 4), rng.randrange(1, 5))] = gen.gen_value(rng, max_str=30)
    ops = []
    kinds = [k for k in ALL_OPS if not (version == "v1" and k.startswith("bulk"))]
    for _ in range(rng.randrange(1, 6)):
        k = rng.choice(kinds)
        if k in ("get", "getnext"):
            ops.append({"op": k, "oid": _gen_oid(rng, base)})
        elif k in ("multiget", "multigetnext"):
            ops.append({"op": k, "oids": [_gen_oid(rng, base) for _ in range(rng.randrange(1, 9))]})
        elif k == "set":
            ops.append({"op": k, "oid": _gen_oid(rng, base), "val": _gen_set_value(rng)})
        elif k == "multiset":
            oids: List[tuple] = []
            for _ in range(rng.randrange(1, 6)):
                o = _gen_oid(rng, base)
                if o not in oids:
                    oids.append(o)
            ops.append({"op": k, "items": [(o, _gen_set_value(rng)) for o in oids]})
        elif k == "bulkget":
            ops.append({"op": k, "scalars": [_gen_oid(rng, base) for _ in range(rng.randrange(0, 4))],
                        "repeaters": [_gen_oid(rng, base) for _ in range(rng.randrange(0, 4))],
                        "maxrep": rng.choice([0, 1, 5, 127, 128, 65535])})
        elif k == "walk":
            ops.append({"op": k, "root": base + (1,) if rng.random() < 0.7 else _gen_oid(rng, base)})
        elif k in ("multiwalk", "bulkwalk"):
            roots = [base + (1, a) for a in rng.sample([1, 2, 3, 7], rng.randrange(1, 4))]
            ops.append({"op": k, "roots": roots, "bulk": rng.choice([1, 3, 10, 200])})
        elif k == "table":
            ops.append({"op": k, "oid": base + (1,)})
        else:
            ops.append({"op": k, "oid": base, "bulk": rng.choice([1, 5, 50])})
    # length sweep: one OID of 90..134 single-octet arcs, so that PDU / binding-list / message lengths cross the BER
    # short/long form boundary (127/128) for every request type
    lrng = rng_for(seed, ID, tier + ":len", i)
    if lrng.random() < 0.2:
        long_oid = (1, 3) + (1,) * (88 + i % 45)
        lk = lrng.choice([k for k in ("get", "getnext", "set", "bulkget") if k in kinds])
        if lk == "bulkget":
            ops.append({"op": lk, "scalars": [], "repeaters": [long_oid], "maxrep": lrng.choice([0, 1, 10])})
        elif lk == "set":
            ops.append({"op": lk, "oid": long_oid, "val": ("int", lrng.choice([0, 1, 255]))})
        else:
            ops.append({"op": lk, "oid": long_oid})
    xrng = rng_for(seed, ID, tier + ":x", i)
    if xrng.random() < 0.25:
        # read-modify-write: a value object RETURNED by the client is handed back to it in a SET
        src_candidates = [o for o, v in sorted(mib.items()) if not (version == "v1" and v[0] == "c64")]
        if src_candidates:
            ops.insert(xrng.randrange(0, len(ops) + 1), {"op": "copy", "from": xrng.choice(src_candidates), "to": _gen_oid(xrng, base)})
    protos = [proto]
    if rng.random() < 0.35:
        # the configuration in force changes between operations: every datagram must follow the one in force when sent
        for _ in range(rng.randrange(1, 3)):
            v2 = rng.choice(["v1", "v2c", "v2c", "v3", version, version])
            if v2 != "v3":
                p2: Dict[str, Any] = {"version": v2, "community": "".join(rng.choice(PRINTABLE) for _ in range(rng.choice([1, 6, 9])))}
            else:
                lvl = rng.choice([0, 1, 3])
                p2 = {"version": "v3", "user": "%s-%d" % (rng.choice(["bob", "carol"]), len(protos)), "level": lvl}
                if lvl & 1:
                    p2.update({"auth": rng.choice(["md5", "sha1"]), "auth_pass": rng.choice(PASSWORDS)})
                if lvl & 2:
                    p2.update({"priv": rng.choice(["verifstream", "verifstream2"]), "priv_pass": rng.choice(PASSWORDS)})
            protos.append(p2)
        n_cfg = rng.randrange(1, 4)
        for _ in range(n_cfg):
            step: Dict[str, Any] = {"op": "configure", "proto": rng.randrange(len(protos))}
            if rng.random() < 0.3:
                step["context_name"] = gen.gen_bytes(rng, rng.choice([0, 3, 8]))
            if xrng.random() < 0.3:
                step["context_engine"] = xrng.choice([b"", b"\x80\x00\x1f\x88\x04proxied-ctx", gen.gen_bytes(xrng, 9)])
            ops.insert(rng.randrange(0, len(ops) + 1), step)
        ops.append({"op": "get", "oid": _gen_oid(rng, base)})
    clock = gen.gen_clock(rng)
    clock["epoch"] = rng.choice([0, 1, 100, 127, 128, 200, 255, 256, 30000, 32767, 32768, 2**23 - 2, 2**23, 10**9,
                                 1_790_000_000, 2**31 - 5000, 2**31, 2**31 + 1, 4_102_444_800, 2**32 + 7])
    eng_len = rng.choice([5, 5, 12, 17, 32, rng.randrange(5, 33)])
    agent_engine_id = b"\x80" + gen.gen_bytes(rng, eng_len - 1)
    if lrng.random() < 0.1:
        agent_engine_id = b"\x80\x00" + b"\x00" * lrng.choice([10, 12, 13, 24]) + b"\x01"    # legal: a long run of zero octets
    return {"prop": ID, "proto": proto, "protos": protos, "mib": sorted(mib.items()), "ops": ops, "clock": clock,
            "context_name": gen.gen_bytes(rng, rng.choice([0, 0, 1, 8, 32])) if version == "v3" else b"",
            "engine_id_cfg": gen.gen_bytes(rng, rng.choice([5, 12, 32])) if version == "v3" and rng.random() < 0.3 else b"",
            "agent_engine_id": agent_engine_id, "ctx_echo": rng.random() < 0.3, "ctx_other": rng.random() < 0.15}


def valid(plan: dict) -> bool:
    return any(o["op"] != "configure" for o in plan["ops"])


def simplify(plan: dict):
    if plan["proto"]["version"] == "v3" and plan["proto"].get("level"):
        p = dict(plan); p["proto"] = {"version": "v3", "user": plan["proto"]["user"], "level": 0}; yield p


def execute(plan: dict) -> dict:
    proto = plan["proto"]
    version = proto["version"]
    w = World(clock=plan["clock"])
    protos = plan.get("protos") or [proto]
    comm: Dict[int, set] = {0: set(), 1: set()}
    users = []
    for pr in protos:
        if pr["version"] == "v1":
            comm[0].add(pr["community"].encode("ascii"))
        elif pr["version"] == "v2c":
            comm[1].add(pr["community"].encode("ascii"))
        elif pr["user"] not in [u.name.decode() for u in users]:
            users.append(agent_user(pr))
    agent = w.add_agent(RefAgent(dict(plan["mib"]), communities=comm, users=users, engine_id=plan["agent_engine_id"]))
    agent.report_ctx_echo = bool(plan.get("ctx_echo"))
    if plan.get("ctx_other"):
        agent.report_ctx_other = b"\x80\x00\x1f\x88\x04proxied-context"
    cur = {"proto": proto, "context_name": plan["context_name"], "engine_id_cfg": plan["engine_id_cfg"]}
    kw = {}
    if version == "v3":
        kw = {"context_name": plan["context_name"], "engine_id": plan["engine_id_cfg"]}
    client = w.client(proto, timeout=1, retries=1, **kw)
    rec = client._verif_recorder
    violation = None
    probes: Dict[str, int] = {k: 0 for k in PROBES}
    probes["v1"] = int(version == "v1")
    probes["v3_priv"] = int(bool(proto.get("priv")))
    n_checked = 0
    outcomes = []
    rid_lens = set()
    disco: Dict[str, Any] = {}

    def fail(clause: str, d: str) -> None:
        nonlocal violation
        if violation is None:
            violation = {"clause": clause, "detail": d}

    for k, op in enumerate(plan["ops"]):
        if op["op"] == "configure":
            from puresnmp.api.raw import Context
            newp = protos[op["proto"] % len(protos)]
            kwc: Dict[str, Any] = {"credentials": make_credentials(newp)}
            if "context_name" in op or "context_engine" in op:
                if "context_engine" in op:
                    cur["engine_id_cfg"] = bytes(op["context_engine"])
                if "context_name" in op:
                    cur["context_name"] = bytes(op["context_name"])
                kwc["context"] = Context(cur["engine_id_cfg"], cur["context_name"])
                probes["context_changed"] = 1
            client.configure(**kwc)
            if newp["version"] != cur["proto"]["version"]:
                disco = {}
            cur["proto"] = newp
            probes["reconfigured"] = 1
            outcomes.append("configure:%s" % newp["version"])
            continue
        proto = cur["proto"]
        version = proto["version"]
        if version == "v1" and op["op"].startswith("bulk"):
            continue            # GETBULK does not exist in SNMPv1
        probes["v1"] |= int(version == "v1")
        probes["v3_priv"] |= int(bool(proto.get("priv")))
        c0, r0, t0 = len(rec.calls), len(agent.requests), w.clock.reads
        reads_before = w.clock.reads
        exc = None
        clock_vals: List[float] = []
        orig_read = w.clock.read

        async def one() -> Any:
            if op["op"] == "copy":
                from ..world import OID as _OID
                val = await client.get(_OID(tuple(op["from"])))
                return await client.set(_OID(tuple(op["to"])), val)
            return await scen.do_op(client, op)
        # remember the clock values read during this operation
        import puresnmp.util as _putil

        def spy() -> float:
            v = orig_read()
            clock_vals.append(v)
            return v
        _putil.time = spy
        try:
            w.run(one())
        except Exception as e:  # noqa: BLE001
            exc = e
        finally:
            _putil.time = orig_read
        outcomes.append("%s:%s" % (op["op"], type(exc).__name__ if exc else "ok"))
        calls = rec.calls[c0:]
        areqs = agent.requests[r0:]
        if len(calls) != len(areqs):
            fail("harness", "sender calls %d != agent datagrams %d" % (len(calls), len(areqs)))
            break
        returned = set()
        first_data = True
        copy_value: Any = ("null", None)
        for call, areq in zip(calls, areqs):
            pkt = call["packet"]
            n_checked += 1
            where = "op#%d %s datagram %s" % (k, op["op"], pkt.hex()[:80])
            try:
                dec = S.decode_message(pkt)
            except BerError as be:
                fail("not-well-formed", "%s: %s" % (where, be))
                continue
            want_version = {"v1": 0, "v2c": 1, "v3": 3}[version]
            if dec["version"] != want_version:
                fail("version", "%s: version %d" % (where, dec["version"]))
                continue
            # ids derive from clock readings; a reading beyond Integer32 (a date after 2038) cannot be carried as it is
            # (RFC 3416 request-id, RFC 3412 msgID) and counts folded into the non-negative Integer32 range
            ids_ok = set(int(v) if int(v) <= 2**31 - 1 else int(v) % 2**31 for v in clock_vals)
            if version != "v3":
                if dec["community"] != proto["community"].encode("ascii"):
                    fail("community", "%s: community %r" % (where, dec["community"]))
                pdu = dec["pdu"]
            else:
                if dec["sec_model"] != 3:
                    fail("security-model", where)
                if dec["msg_id"] not in ids_ok:
                    fail("msg-id", "%s: msgID %d not a clock reading %s" % (where, dec["msg_id"], sorted(ids_ok)[:4]))
                sec = dec["sec"]
                if areq.get("discovery"):
                    # RFC 3414 section 4 probe
                    if (dec["flags"] != 4 or sec["engine_id"] or sec["user"] or sec["auth"] or sec["priv"]
                            or dec["scoped"] is None or dec["scoped"]["pdu"]["vbs"]
                            or dec["scoped"]["pdu"]["tag"] != S.PDU_GET):
                        fail("discovery-probe", "%s: not an RFC 3414 discovery probe" % where)
                    rep = S.decode_message(areq["responses"][0])
                    disco = {"boots": rep["sec"]["boots"], "time": rep["sec"]["time"]}
                    continue
                level = proto.get("level", 0)
                if dec["flags"] != (level | 4):
                    fail("msg-flags", "%s: flags %#x, expected %#x" % (where, dec["flags"], level | 4))
                if sec["engine_id"] != plan["agent_engine_id"] or sec["user"] != proto["user"].encode():
                    fail("security-parameters", "%s: engine id/user %r/%r" % (where, sec["engine_id"], sec["user"]))
                if disco and (sec["boots"] != disco["boots"] or not disco["time"] <= sec["time"] <= disco["time"] + 1 + int(w.loop.time())):
                    fail("security-parameters", "%s: boots/time %d/%d, discovered %r" % (where, sec["boots"], sec["time"], disco))
                if len(sec["auth"]) != (12 if level & 1 else 0):
                    fail("security-parameters", "%s: digest of %d octets" % (where, len(sec["auth"])))
                if level & 2:
                    if dec["encrypted"] is None:
                        fail("plaintext-under-priv", where)
                        continue
                    scoped = areq.get("scoped")
                    if scoped is None:
                        fail("undecryptable", "%s: agent verdict %s" % (where, areq["verdict"]))
                        continue
                else:
                    if sec["priv"] or dec["scoped"] is None:
                        fail("security-parameters", "%s: privacy parameters without privacy" % where)
                        continue
                    scoped = dec["scoped"]
                want_ctx = cur["engine_id_cfg"] or plan["agent_engine_id"]
                if scoped["ctx_engine"] != want_ctx or scoped["ctx_name"] != cur["context_name"]:
                    fail("context", "%s: context %r/%r" % (where, scoped["ctx_engine"], scoped["ctx_name"]))
                pdu = scoped["pdu"]
            if pdu["rid"] not in ids_ok:
                fail("request-id", "%s: request-id %d is not a clock reading (%s)" % (where, pdu["rid"], sorted(ids_ok)[:4]))
            rid_lens.add(max(1, (pdu["rid"].bit_length() + 8) // 8))
            if op["op"] == "copy" and not first_data:
                op = dict(op, _value=copy_value)
            _check_pdu(k, op, pdu, first_data, returned, fail, where, probes)
            if op["op"] == "copy" and first_data and areq.get("resp_pdu") and areq["resp_pdu"]["vbs"]:
                copy_value = areq["resp_pdu"]["vbs"][0][1]
            first_data = False
            resp = areq.get("resp_pdu")
            if resp:
                returned.update(o for o, _ in resp["vbs"])
    w.settle()
    for ln in rid_lens:
        if 1 <= ln <= 4:
            probes["rid_%d_octet%s" % (ln, "" if ln == 1 else "s")] = 1
    if version != "v3":
        probes["community_empty"] = int(proto["community"] == "")
        probes["community_64"] = int(len(proto["community"]) == 64)
    else:
        probes["context_name"] = int(bool(plan["context_name"]))
        probes["configured_engine_id"] = int(bool(plan["engine_id_cfg"]))
        probes["engine_id_32"] = int(len(plan["agent_engine_id"]) == 32)
    counters = dict(w.net.counters)
    counters["datagrams_checked"] = n_checked
    for kk, v in probes.items():
        counters["probe_" + kk] = v
    level = proto.get("level", "") if version == "v3" else ""
    out = {
        "violation": violation, "digest": w.net.digest(), "triggers": [], "counters": counters,
        "shape": repr((version, level, tuple(outcomes), tuple(sorted(rid_lens)),
                       probes["oid_128_arcs"], probes["subid_2_32"], probes["str_2000"])),
        "nontrivial": n_checked > 0, "sim_s": w.loop.time(), "exchanges": agent.exchanges,
        "summary": "%d datagrams; %s" % (n_checked, " ".join(outcomes)),
    }
    w.close()
    return out


def _check_pdu(k: int, op: dict, pdu: dict, first: bool, returned: set, fail: Any, where: str,
               probes: Dict[str, int]) -> None:
    kind = op["op"]
    null = ("null", None)
    if kind == "copy":
        probes["read_then_write"] = 1
        if first:
            if pdu["tag"] != S.PDU_GET or [(o, tuple(v)) for o, v in pdu["vbs"]] != [(tuple(op["from"]), null)]:
                fail("bindings", "%s: the read half of a read-modify-write is not GET %s" % (where, S.oid_str(tuple(op["from"]))))
        else:
            want_v = tuple(op["_value"])
            if pdu["tag"] != S.PDU_SET or [(o, tuple(v)) for o, v in pdu["vbs"]] != [(tuple(op["to"]), want_v)]:
                fail("bindings", "%s: SET of a value returned by an earlier GET: bindings %r, intended %r" % (
                    where, [(o, tuple(v)) for o, v in pdu["vbs"]][:2], [(tuple(op["to"]), want_v)]))
        return
    want_tag = {"get": S.PDU_GET, "multiget": S.PDU_GET, "getnext": S.PDU_GETNEXT, "multigetnext": S.PDU_GETNEXT,
                "set": S.PDU_SET, "multiset": S.PDU_SET, "bulkget": S.PDU_BULK, "walk": S.PDU_GETNEXT,
                "multiwalk": S.PDU_GETNEXT, "table": S.PDU_GETNEXT, "bulkwalk": S.PDU_BULK, "bulktable": S.PDU_BULK}[kind]
    if pdu["tag"] != want_tag:
        fail("pdu-type", "%s: PDU tag %#x, expected %#x" % (where, pdu["tag"], want_tag))
        return
    want: Optional[list] = None
    if kind in ("get", "getnext"):
        want = [(tuple(op["oid"]), null)]
    elif kind in ("multiget", "multigetnext"):
        want = [(tuple(o), null) for o in op["oids"]]
    elif kind == "set":
        want = [(tuple(op["oid"]), tuple(op["val"]))]
    elif kind == "multiset":
        want = [(tuple(o), tuple(v)) for o, v in op["items"]]
    elif kind == "bulkget":
        want = [(tuple(o), null) for o in list(op["scalars"]) + list(op["repeaters"])]
    if kind in ("bulkget", "bulkwalk", "bulktable"):
        n, m = (len(op["scalars"]), op["maxrep"]) if kind == "bulkget" else (0, op["bulk"])
        if pdu["es"] != n or pdu["ei"] != m:
            fail("bulk-parameters", "%s: non-repeaters=%d max-repetitions=%d, expected %d/%d" % (
                where, pdu["es"], pdu["ei"], n, m))
    elif pdu["es"] != 0 or pdu["ei"] != 0:
        fail("error-fields", "%s: error-status=%d error-index=%d in a request" % (where, pdu["es"], pdu["ei"]))
    got = [(o, tuple(v)) for o, v in pdu["vbs"]]
    if want is not None:
        if got != want:
            fail("bindings", "%s: bindings %r, intended %r" % (where, got[:4], want[:4]))
    else:
        roots = [tuple(op["root"])] if kind == "walk" else [tuple(op["oid"])] if kind in ("table", "bulktable") \
            else [tuple(r) for r in op["roots"]]
        if first:
            if got != [(r, null) for r in roots]:
                fail("bindings", "%s: first walk request %r, roots %r" % (where, got, roots))
        else:
            probes["walk_followup"] = 1
            for o, v in got:
                if v != null or o not in returned:
                    fail("bindings", "%s: follow-up request for %s which the agent never returned" % (where, S.oid_str(o)))
    for o, v in got:
        if len(o) == 128:
            probes["oid_128_arcs"] = 1
        if 2**32 - 1 in o:
            probes["subid_2_32"] = 1
        if v[0] in ("str", "opaque") and len(v[1]) >= 2000:
            probes["str_2000"] = 1
        if v[0] == "c64":
            probes["c64_set"] = 1


def describe(plan: dict) -> str:
    from .c04 import _op_str
    def s(op: dict) -> str:
        try:
            return _op_str(op)
        except Exception:
            return repr({k: v for k, v in op.items()})[:200]
    return "proto=%s clock=%s ctx=%r cfg_engine=%r agent_engine=%r\nops=%s" % (
        {k: v for k, v in plan["proto"].items() if "pass" not in k}, plan["clock"], plan["context_name"],
        plan["engine_id_cfg"], plan["agent_engine_id"], [s(o) for o in plan["ops"]])
