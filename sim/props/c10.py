"""C10 - USM interop: requests verify under RFC 3414, authentic responses are accepted."""
from __future__ import annotations

from typing import Any, Dict, List, Optional

from .. import gen, scen
from .. import refber as B
from .. import refsnmp as S
from ..runner import rng_for
from ..world import World, agent_for

ID = "C10"
LEVEL = "exploration"
RULE = ("Seeded plans: users MD5/SHA-1 x {authNoPriv, authPriv, noAuthNoPriv}, passwords of every length 1..300 in the "
        "thorough tier (quick: 1-20, 63-65, 127-129, 255-257, 300 and seeded others), random contents, engine ids of 5..32 "
        "octets, operations get/multiget/getnext/set/bulkget/walk, and an OCTET STRING payload whose length sweeps 0..280 in "
        "the response (GET) or the request (SET) so that the content lengths of message, security-parameter string, USM "
        "sequence, scoped PDU and PDU pass through the values of 100..300 (covered sets are measured and reported per layer). "
        "Oracle, request side: the independent RFC 3412/3414 agent's verdict (flags = level + reportable, model 3, discovered "
        "engine id/boots/time, user, 12-octet digest over the datagram as sent under the independently derived key, scoped "
        "PDU decrypts) and all usmStats but unknownEngineIDs stay 0; response side: each authentic minimal-BER response is "
        "accepted with the model result. Non-trivial: >=1 authenticated exchange; distinct = distinct (hash, level, password "
        "length, engine-id length, operation, payload length).")
ASSUMPTIONS = [
    "responses are minimal-length BER as the property states (non-minimal forms are C06's subject)",
    "engine time in requests may lie between the discovered time and discovered time + elapsed virtual seconds",
]
PROBES = ["same_passphrase_used_with_other_hash_before", "pwlen_1", "pwlen_64", "pwlen_not_dividing_2_20", "pwlen_300", "engine_5", "engine_32", "authpriv",
          "len127_outer_layer", "len128_outer_layer", "len255_outer_layer", "len256_outer_layer", "request_len127_layer",
          "set_payload", "usmstats_as_data", "report_ctx_echo", "engine_id_with_zero_run", "engine_time_max"]
shrink_lists: List[tuple] = []
OPS = ["get", "get", "set", "multiget", "getnext", "bulkget", "walk"]
BASE = (1, 3, 6, 1, 2, 1, 7)
QUICK_PWLENS = list(range(1, 21)) + [63, 64, 65, 127, 128, 129, 255, 256, 257, 300]


def total(tier: str) -> int:
    return 2400 if tier == "quick" else 40000


def plan_for(tier: str, seed: int, i: int) -> dict:
    rng = rng_for(seed, ID, tier, i)
    if tier == "thorough":
        pwlen = 1 + i % 300
    else:
        pwlen = QUICK_PWLENS[(i - i // 3) % len(QUICK_PWLENS)] if i % 3 else rng.randrange(1, 301)
    level = rng.choice([1, 1, 3, 3, 0])
    h = rng.choice(["md5", "sha1"])
    proto: Dict[str, Any] = {"version": "v3", "user": rng.choice(["u", "alice", "operator-0123456789"]), "level": level}
    if level & 1:
        proto.update({"auth": h, "auth_pass": gen.gen_bytes(rng, pwlen)})
    if level & 2:
        proto.update({"priv": rng.choice(["verifstream", "verifstream2"]),
                      "priv_pass": gen.gen_bytes(rng, rng.choice([pwlen, 8, 1 + (pwlen * 7) % 300]))})
    srng = rng_for(seed, ID, tier + ":pw", i)
    if level & 1 and srng.random() < 0.06:
        proto["auth_pass"] = gen.gen_structured_passphrase(srng)
        if level & 2 and srng.random() < 0.5:
            proto["priv_pass"] = gen.gen_structured_passphrase(srng)
    payload = (i // 2) % 281 if i % 2 == 0 else rng.randrange(0, 281)
    op = rng.choice(OPS)
    ctx = gen.gen_bytes(rng, rng.choice([0, 0, 0, 5, 20]))
    eng = b"\x80" + gen.gen_bytes(rng, rng.choice([4, 4, 11, 16, 31, rng.randrange(4, 32)]))
    if rng.random() < 0.12:
        op = rng.choice(["get_usmstat", "walk_usmstats"])   # the agent's own usmStats counters read as ordinary data
    zrng = rng_for(seed, ID, tier + ":z", i)
    if zrng.random() < 0.1:
        eng = b"\x80\x00" + b"\x00" * zrng.choice([10, 12, 13, 24]) + b"\x01"   # legal engine id with a long run of zero octets
    time0 = zrng.choice([4000, 4000, 4000, 2**31 - 1, 0])                           # incl. the maximum engine time
    return {"prop": ID, "proto": proto, "engine_id": eng, "op": op, "payload": payload, "pwlen": pwlen, "context_name": ctx,
            "ctx_echo": rng.random() < 0.3, "ctx_other": rng.random() < 0.15, "time0": time0,
            "agent_max_size": zrng.choice([65507, 65507, 484, 1472, 2**31 - 1]),
            # history of the process: ANOTHER user with the same pass-phrases but the other hash algorithm (a migrated
            # account) has talked to the same engine before, through a client of its own
            "earlier_user_other_hash": bool(level & 1) and zrng.random() < 0.2}


def simplify(plan: dict):
    if plan.get("earlier_user_other_hash"):
        p = dict(plan); p["earlier_user_other_hash"] = False; yield p
    if plan["op"] != "get":
        p = dict(plan); p["op"] = "get"; yield p
    if plan["context_name"]:
        p = dict(plan); p["context_name"] = b""; yield p


def _layers(raw: bytes, plain_scoped: Optional[bytes] = None) -> Dict[str, int]:
    root = B.parse(raw)
    ch = root.children
    out = {"message": len(root.content), "secparams_string": len(ch[2].content)}
    inner = B.parse(bytes(ch[2].content))
    out["usm_sequence"] = len(inner.content)
    sp = None
    if ch[3].tag == 0x30:
        sp = ch[3]
    elif plain_scoped is not None:
        sp, _ = B.parse_prefix(plain_scoped)
        out["ciphertext_string"] = len(ch[3].content)
    if sp is not None:
        out["scoped_pdu"] = len(sp.content)
        out["pdu"] = len(sp.children[2].content)
    return out


def execute(plan: dict) -> dict:
    proto = plan["proto"]
    level = proto["level"]
    w = World()
    mib = {BASE + (1, 1, 1): ("str", b"P" * plan["payload"]), BASE + (1, 1, 2): ("int", 42), BASE + (1, 2, 1): ("c32", 7)}
    o1, o2, o3 = sorted(mib)
    usm = (1, 3, 6, 1, 6, 3, 15, 1, 1)
    if plan["op"] in ("get_usmstat", "walk_usmstats"):
        for k in range(1, 7):
            mib[usm + (k, 0)] = ("c32", 10 + k)
    agent = w.add_agent(agent_for(proto, mib, engine_id=plan["engine_id"], boots=7, time0=plan.get("time0", 4000)))
    agent.report_ctx_echo = bool(plan.get("ctx_echo"))
    agent.announce_max_size = int(plan.get("agent_max_size", 65507))
    if plan.get("ctx_other"):
        agent.report_ctx_other = b"\x80\x00\x1f\x88\x04proxied-context"
    n0 = 0
    if plan.get("earlier_user_other_hash"):
        from ..world import agent_user
        proto0 = dict(proto, user="migrated", auth="sha1" if proto["auth"] == "md5" else "md5")
        u0 = agent_user(proto0)
        agent.users[u0.name] = u0
        client0 = w.client(proto0, timeout=1, retries=1)
        try:
            w.run(scen.do_op(client0, {"op": "get", "oid": sorted(mib)[0]}))
        except Exception:  # noqa: BLE001
            pass               # not under test here
        n0 = len(agent.requests)
    stats0 = dict(agent.stats)
    client = w.client(proto, timeout=1, retries=1, context_name=plan["context_name"])
    op = {"get": {"op": "get", "oid": o1}, "multiget": {"op": "multiget", "oids": [o1, o2, o3]},
          "getnext": {"op": "getnext", "oid": BASE + (1, 1)},
          "set": {"op": "set", "oid": o2, "val": ("str", b"S" * plan["payload"])},
          "bulkget": {"op": "bulkget", "scalars": [o2], "repeaters": [BASE + (1,)], "maxrep": 3},
          "walk": {"op": "walk", "root": BASE + (1, 1)},
          "get_usmstat": {"op": "get", "oid": usm + (1 + plan["payload"] % 6, 0)},
          "walk_usmstats": {"op": "walk", "root": usm}}[plan["op"]]
    res = exc = None

    async def one() -> Any:
        return await scen.do_op(client, op)
    try:
        res = w.run(one())
    except Exception as e:  # noqa: BLE001
        exc = e
    w.settle()
    violation = None

    def fail(clause: str, d: str) -> None:
        nonlocal violation
        if violation is None:
            violation = {"clause": clause, "detail": "%s | %s" % (d, describe(plan))}

    reqs = agent.requests[n0:]
    disco = [r for r in reqs if r.get("discovery")]
    data = [r for r in reqs if not r.get("discovery")]
    sets: Dict[str, List[int]] = {}
    probes = {k: 0 for k in PROBES}
    disco_time = None
    if disco:
        rep = S.decode_message(disco[0]["responses"][0])
        disco_time = rep["sec"]["time"]
    for r in data:
        where = "request #%d (%s)" % (r["n"], r["raw"].hex()[:60])
        if r["verdict"] != "ok":
            fail("request-refused:" + r["verdict"], "%s: the RFC 3414 agent's verdict is %s %s" % (
                where, r["verdict"], r.get("error", "")))
            continue
        msg = r["msg"]
        if msg["flags"] != (level | 4):
            fail("msg-flags", "%s: flags %#x, credentials demand %#x" % (where, msg["flags"], level | 4))
        sec = msg["sec"]
        if sec["engine_id"] != plan["engine_id"] or sec["boots"] != 7 or sec["user"] != proto["user"].encode():
            fail("security-parameters", "%s: %r" % (where, {k: sec[k] for k in ("engine_id", "boots", "user")}))
        if disco_time is not None and not disco_time <= sec["time"] <= disco_time + int(w.loop.time()) + 1:
            fail("security-parameters", "%s: engine time %d, discovered %d" % (where, sec["time"], disco_time))
        lay = _layers(r["raw"], r.get("plain_scoped"))
        for k, v in lay.items():
            sets.setdefault("request_" + k, []).append(v)
            if v == 127:
                probes["request_len127_layer"] = 1
        for raw in r["responses"]:
            lay = _layers(raw, None if not level & 2 else _resp_plain(agent, r))
            for k, v in lay.items():
                sets.setdefault("response_" + k, []).append(v)
                if k != "pdu":
                    for n in (127, 128, 255, 256):
                        if v == n:
                            probes["len%d_outer_layer" % n] = 1
    stats = {k: v - stats0.get(k, 0) for k, v in agent.stats.items()}
    bad = {k: v for k, v in stats.items() if v and k != "unknown_engine"}
    if bad:
        fail("usm-stats", "agent counters %r" % bad)
    if stats["unknown_engine"] != len(disco):
        fail("usm-stats", "unknownEngineIDs=%d for %d discovery probes" % (stats["unknown_engine"], len(disco)))
    excname = type(exc).__name__ if exc else None
    if exc is not None:
        fail("response-refused:" + excname, "authentic response refused: %s: %s" % (excname, exc))
    else:
        ok = [r for r in data if r["verdict"] == "ok"]
        want: Any = None
        if plan["op"] == "get":
            want = mib[o1]
        elif plan["op"] == "multiget":
            want = [mib[o1], mib[o2], mib[o3]]
        elif plan["op"] == "getnext":
            want = (o1, mib[o1])
        elif plan["op"] == "set":
            want = ("str", b"S" * plan["payload"])
        elif plan["op"] == "walk":
            want = [(o1, mib[o1]), (o2, mib[o2])]
        elif plan["op"] == "get_usmstat":
            want = mib[usm + (1 + plan["payload"] % 6, 0)]
        elif plan["op"] == "walk_usmstats":
            want = [(usm + (k, 0), mib[usm + (k, 0)]) for k in range(1, 7)]
        if want is not None and res != want:
            fail("wrong-result", "call returned %r, model %r" % (str(res)[:120], str(want)[:120]))
        if plan["op"] == "bulkget" and ok:
            vbs = ok[-1]["resp_pdu"]["vbs"]
            if [o for o, _ in res["scalars"]] != [vbs[0][0]]:
                fail("wrong-result", "bulkget scalars %r" % (res["scalars"],))
    pw = plan["pwlen"]
    probes["same_passphrase_used_with_other_hash_before"] = int(bool(plan.get("earlier_user_other_hash")))
    probes["pwlen_1"] = int(pw == 1 and level > 0)
    probes["pwlen_64"] = int(pw == 64 and level > 0)
    probes["pwlen_300"] = int(pw == 300 and level > 0)
    probes["pwlen_not_dividing_2_20"] = int(level > 0 and 1048576 % pw != 0)
    probes["engine_5"] = int(len(plan["engine_id"]) == 5)
    probes["engine_32"] = int(len(plan["engine_id"]) == 32)
    probes["authpriv"] = int(level == 3)
    probes["set_payload"] = int(plan["op"] == "set")
    probes["usmstats_as_data"] = int(plan["op"] in ("get_usmstat", "walk_usmstats"))
    probes["report_ctx_echo"] = int(bool(plan.get("ctx_echo")))
    probes["engine_id_with_zero_run"] = int(b"\x00" * 10 in plan["engine_id"])
    probes["engine_time_max"] = int(plan.get("time0") == 2**31 - 1)
    counters = dict(w.net.counters)
    for kk, v in probes.items():
        counters["probe_" + kk] = v
    out = {
        "violation": violation, "digest": w.net.digest(), "triggers": [], "counters": counters, "sets": sets,
        "shape": repr((proto.get("auth"), level, pw, len(plan["engine_id"]), plan["op"], plan["payload"])),
        "nontrivial": level > 0 and bool(data), "sim_s": w.loop.time(), "exchanges": agent.exchanges,
        "summary": "%s level=%d pwlen=%d payload=%d -> %s" % (plan["op"], level, pw, plan["payload"], excname or "ok"),
    }
    w.close()
    return out


def _resp_plain(agent: Any, r: dict) -> Optional[bytes]:
    """Plaintext scoped PDU of an encrypted response, re-derived by the agent's own encoder."""
    try:
        return S.enc_scoped(r["scoped"]["ctx_engine"], r["scoped"]["ctx_name"], S.enc_pdu(r["resp_pdu"]))
    except Exception:  # pragma: no cover
        return None


def describe(plan: dict) -> str:
    p = plan["proto"]
    return "hash=%s level=%s pwlen=%d engine_id=%d octets op=%s payload=%d ctx=%d" % (
        p.get("auth"), p["level"], plan["pwlen"], len(plan["engine_id"]), plan["op"], plan["payload"],
        len(plan["context_name"]))
