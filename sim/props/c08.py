"""C08 - agent error-status always surfaces as the documented exception, never as data."""
from __future__ import annotations

import itertools
from typing import Any, Dict, List, Optional

from .. import scen
from .. import refsnmp as S
from ..runner import rng_for
from ..world import World, agent_for, oid_t

ID = "C08"
LEVEL = "exploration"
STATUSES = list(range(1, 19)) + [19, 42, 255, 2**31 - 1, -1]
OPS = ["get", "multiget", "getnext", "multigetnext", "set", "multiset", "bulkget",
       "walk:0", "walk:1", "multiwalk:1", "bulkwalk:0", "bulkwalk:1", "table:1", "bulktable:0",
       # lenient walks tolerate FaultySNMPImplementation only: an error-status must surface all the same
       "walk:1:warn", "multiwalk:1:warn"]
PROTOS = [
    {"version": "v1", "community": "public"},
    {"version": "v2c", "community": "public"},
    {"version": "v3", "user": "alice", "level": 0},
    {"version": "v3", "user": "alice", "level": 1, "auth": "md5", "auth_pass": b"maplesyrup"},
    {"version": "v3", "user": "alice", "level": 3, "auth": "sha1", "auth_pass": b"maplesyrup",
     "priv": "verifstream", "priv_pass": b"maplesyrup"},
]
# index classes: 0, 1, middle, n, n+1, n+7 ; response list: echo of the request's bindings or empty
INDEX_CLASSES = ["0", "1", "mid", "n", "n+1", "n+7"]
LISTS = ["echo", "empty"]
MATRIX = [c for c in itertools.product(STATUSES, INDEX_CLASSES, LISTS, OPS, range(len(PROTOS)))
          if not (PROTOS[c[4]]["version"] == "v1" and c[3].startswith("bulk"))]
#: thorough: every status -2..63 plus the INTEGER length boundaries
STATUSES_T = sorted(set(list(range(-2, 64)) + [127, 128, 255, 256, 32767, 32768, 2**31 - 1, -(2**31)]) - {0})
MATRIX_T = [c for c in itertools.product(STATUSES_T, INDEX_CLASSES, LISTS, OPS, range(len(PROTOS)))
            if not (PROTOS[c[4]]["version"] == "v1" and c[3].startswith("bulk"))]
RULE = ("The matrix error-status {1..18, 19, 42, 255, 2^31-1, -1} x error-index class {0, 1, middle, n, n+1, n+7} x response "
        "binding list {echo of the request, empty} x operation {get, multiget, getnext, multigetnext, set, multiset, bulkget, "
        "first/later request of walk, multiwalk, bulkwalk, table, bulktable} x {v1, v2c, v3 noAuthNoPriv/authNoPriv/authPriv} "
        "(%d cases) is enumerated completely in the quick tier; thorough enumerates the same matrix with every status -2..63 "
        "and the INTEGER length boundaries 127/128/255/256/32767/32768/+-2^31. A scripted reference agent answers the targeted request with (status, index). "
        "Oracle: independent status->class table from RFC 3416, error_status, offending_oid. Non-trivial: the scripted "
        "response was served; distinct = distinct matrix cells." % len(MATRIX))
ASSUMPTIONS = [
    "noSuchName (2) answered to a continuation request of a walk may raise NoSuchOID or end the walk normally (SNMPv1 end-of-MIB signal)",
    "the expected class table is written from RFC 3416 (1 tooBig ... 18 inconsistentName), not read from puresnmp.exc",
]
PROBES = ["index_beyond_list", "index_zero", "empty_list", "unknown_status", "negative_status", "later_walk_request",
          "v1", "v3_priv"]
shrink_lists: List[tuple] = []
RFC_NAMES = {1: "TooBig", 2: "NoSuchOID", 3: "BadValue", 4: "ReadOnly", 5: "GenErr", 6: "NoAccess", 7: "WrongType",
             8: "WrongLength", 9: "WrongEncoding", 10: "WrongValue", 11: "NoCreation", 12: "InconsistentValue",
             13: "ResourceUnavailable", 14: "CommitFailed", 15: "UndoFailed", 16: "AuthorizationError",
             17: "NotWritable", 18: "InconsistentName"}
BASE = (1, 3, 6, 1, 2, 1, 7)
MIB = {BASE + (1, c, r): ("int", c * 10 + r) for c in (1, 2) for r in (1, 2, 3)}


def total(tier: str) -> int:
    return len(MATRIX) if tier == "quick" else len(MATRIX_T)


def exhaustive(tier: str) -> Optional[str]:
    return "all %d cells of status x index class x list x operation x protocol" % (
        len(MATRIX) if tier == "quick" else len(MATRIX_T))


def plan_for(tier: str, seed: int, i: int) -> dict:
    cell = MATRIX[i] if tier == "quick" else MATRIX_T[i]
    status, ic, lst, opname, pi = cell
    return {"prop": ID, "status": status, "index_class": ic, "list": lst, "opname": opname, "proto_i": pi}


def simplify(plan: dict):
    if plan["proto_i"] != 1 and not plan["opname"].startswith("bulk"):
        p = dict(plan); p["proto_i"] = 1; yield p


def _op(opname: str) -> dict:
    k = opname.split(":")[0]
    op = _op_table(k)
    if opname.count(":") == 2:
        op = dict(op, errors=opname.split(":")[2])
    return op


def _op_table(k: str) -> dict:
    o1, o2, o3 = BASE + (1, 1, 1), BASE + (1, 1, 2), BASE + (1, 2, 1)
    return {
        "get": {"op": "get", "oid": o1},
        "multiget": {"op": "multiget", "oids": [o1, o2, o3]},
        "getnext": {"op": "getnext", "oid": o1},
        "multigetnext": {"op": "multigetnext", "oids": [o1, o2, o3]},
        "set": {"op": "set", "oid": o1, "val": ("int", 5)},
        "multiset": {"op": "multiset", "items": [(o1, ("int", 5)), (o2, ("str", b"x")), (o3, ("int", 7))]},
        "bulkget": {"op": "bulkget", "scalars": [o1], "repeaters": [o2, o3], "maxrep": 2},
        "walk": {"op": "walk", "root": BASE + (1, 1)},
        "multiwalk": {"op": "multiwalk", "roots": [BASE + (1, 1), BASE + (1, 2)]},
        "bulkwalk": {"op": "bulkwalk", "roots": [BASE + (1, 1), BASE + (1, 2)], "bulk": 2},
        "table": {"op": "table", "oid": BASE + (1,)},
        "bulktable": {"op": "bulktable", "oid": BASE, "bulk": 2},
    }[k]


def execute(plan: dict) -> dict:
    proto = PROTOS[plan["proto_i"]]
    status = plan["status"]
    opname = plan["opname"]
    target = int(opname.split(":")[1]) if ":" in opname else 0
    op = _op(opname)
    w = World()
    agent = w.add_agent(agent_for(proto, dict(MIB)))
    st: Dict[str, Any] = {"n": -1, "served": None}

    def hook(req: dict, resp: dict) -> Optional[dict]:
        st["n"] += 1
        if st["n"] != target:
            return resp
        vbs = list(req["pdu"]["vbs"]) if plan["list"] == "echo" else []
        n = len(vbs)
        index = {"0": 0, "1": 1, "mid": max(1, (n + 1) // 2), "n": n, "n+1": n + 1, "n+7": n + 7}[plan["index_class"]]
        st["served"] = (status, index, [o for o, _ in vbs])
        return S.mkpdu(S.PDU_RESPONSE, req["pdu"]["rid"], vbs, es=status, ei=index)

    agent.hook_pdu = hook
    client = w.client(proto, timeout=1, retries=1)
    res = exc = None

    async def one() -> Any:
        return await scen.do_op(client, op)
    try:
        res = w.run(one())
    except Exception as e:  # noqa: BLE001
        exc = e
    w.settle()
    violation = None
    excname = type(exc).__name__ if exc else None

    def fail(clause: str, d: str) -> None:
        nonlocal violation
        if violation is None:
            violation = {"clause": clause, "detail": "%s | status=%s index=%s list=%s op=%s proto=%s/%s" % (
                d, status, plan["index_class"], plan["list"], opname, proto["version"], proto.get("level", ""))}

    served = st["served"]
    if served is not None:
        _, index, oids = served
        want_name = RFC_NAMES.get(status, "ErrorResponse")
        want_oid = oids[index - 1] if 1 <= index <= len(oids) else ()
        later_nosuchname = status == 2 and target > 0
        if exc is None:
            if not later_nosuchname:
                fail("error-returned-as-data", "call returned %r" % (res,))
        elif excname != want_name:
            fail("wrong-exception", "raised %s (%s), documented class is %s" % (excname, exc, want_name))
        else:
            if getattr(exc, "error_status", None) != status:
                fail("wrong-error-status", "error_status=%r" % getattr(exc, "error_status", None))
            got_oid = oid_t(getattr(exc, "offending_oid", None)) if getattr(exc, "offending_oid", None) is not None else None
            if got_oid != tuple(want_oid):
                fail("wrong-offending-oid", "offending_oid=%r, binding %d of %d is %r" % (got_oid, index, len(oids), want_oid))
    probes = {k: 0 for k in PROBES}
    if served is not None:
        _, index, oids = served
        probes["index_beyond_list"] = int(index > len(oids))
        probes["index_zero"] = int(index == 0)
        probes["empty_list"] = int(not oids)
        probes["unknown_status"] = int(status not in RFC_NAMES)
        probes["negative_status"] = int(status < 0)
        probes["later_walk_request"] = int(target > 0)
    probes["v1"] = int(proto["version"] == "v1")
    probes["v3_priv"] = int(bool(proto.get("priv")))
    counters = dict(w.net.counters)
    for kk, v in probes.items():
        counters["probe_" + kk] = v
    out = {
        "violation": violation, "digest": w.net.digest(), "triggers": [], "counters": counters,
        "shape": repr((status, plan["index_class"], plan["list"], opname, plan["proto_i"])),
        "nontrivial": served is not None, "sim_s": w.loop.time(), "exchanges": agent.exchanges,
        "summary": "status=%s index=%s %s -> %s" % (status, plan["index_class"], opname, excname or "ok"),
    }
    w.close()
    return out


def describe(plan: dict) -> str:
    return "status=%s index_class=%s list=%s op=%s proto=%s" % (
        plan["status"], plan["index_class"], plan["list"], plan["opname"],
        {k: v for k, v in PROTOS[plan["proto_i"]].items() if "pass" not in k})
