"""C03 - walks terminate and never re-request, whatever the agent answers."""
from __future__ import annotations

from typing import Any, Dict, List, Optional, Tuple

from .. import refsnmp as S
from ..agent import EOM, RefAgent
from ..runner import rng_for
from ..world import OID, World, oid_t, to_ref

ID = "C03"
LEVEL = "exploration"
RULE = ("Seeded plans: a byzantine agent over a universe of 4-12 OIDs (inside / equal to / before / after the roots) whose "
        "GETNEXT function is the sorted successor overridden by 0-4 explicit deviations (requested OID, repetition index) -> "
        "(returned OID | endOfMibView, also under an arbitrary name | noSuchInstance/noSuchObject under the requested or another "
        "name): same OID, smaller OID, cycles, leaving a subtree and coming back; operations walk, "
        "multiwalk (1-3 roots), bulkwalk (bulk 1-4), table, bulktable; strict and lenient mode; in 15% of the bulk plans the agent "
        "answers with an EMPTY binding list from its k-th GETBULK request on. Non-trivial: >=1 deviation "
        "was actually served or >=3 requests were made; distinct = distinct (operation, mode, bulk, number of roots, sequence "
        "of (advance|stall|back|eom) classes of the answers served, outcome class).")
ASSUMPTIONS = [
    "the request cap is 'distinct OIDs revealed + roots + 2'; the agent stops answering at 3x(universe+roots)+5 requests, so "
    "non-termination is a verdict at a fixed request number (the operation then ends with Timeout in virtual time)",
    "in lenient mode both FaultySNMPImplementation and a normal end are accepted for a non-advancing answer",
    "a non-advancing repetition in a GETBULK column that has already left its root may be ignored or refused",
]
PROBES = ["same_operation_run_before_on_this_client", "same_oid", "smaller_oid", "leave_and_return", "eom_midway", "bulk_nonadvance_later_rep",
          "lenient", "faulty_raised", "all_advance", "empty_bulk_response", "eom_under_foreign_name", "get_marker_in_getnext_answer", "truncated_bulk_answers"]
shrink_lists = [("dev",), ("universe",), ("roots",)]
OPS = ["walk", "multiwalk", "bulkwalk", "table", "bulktable"]


def total(tier: str) -> int:
    return 6000 if tier == "quick" else 250000


def plan_for(tier: str, seed: int, i: int) -> dict:
    rng = rng_for(seed, ID, tier, i)
    op = rng.choice(OPS)
    base = (1, 3, 6, 1, 2, 1, rng.randrange(1, 5))
    n_roots = rng.randrange(1, 4) if op in ("multiwalk", "bulkwalk") else 1
    arcs = rng.sample(range(2, 9), n_roots)
    roots = [base + (a,) for a in arcs]
    universe = set()
    for r in roots:
        for _ in range(rng.randrange(1, 5)):
            universe.add(r + (rng.randrange(1, 4), rng.randrange(1, 6)))
    if rng.random() < 0.5:
        universe.add(base + (1, 1, 1))      # before all roots
    if rng.random() < 0.7:
        universe.add(base + (9, 1, 1))      # after all roots
    if rng.random() < 0.15 and op not in ("table", "bulktable"):
        universe.add(rng.choice(roots))     # equal to a root (not a table shape: see C16)
    universe = sorted(universe)
    dev = []
    for _ in range(rng.choice([0, 1, 1, 1, 2, 2, 3, 4])):
        frm = rng.choice(universe + roots)
        r = rng.random()
        if r < 0.17:
            to: Any = "eom"
        elif r < 0.24:
            # endOfMibView under an arbitrary name (a conformant agent names it after the variable it could not step from)
            to = ["eom", rng.choice(universe + [(0, 0), frm])]
        elif r < 0.31:
            # an exception marker that only GET may return, under the requested or another name
            to = [rng.choice(["nsi", "nso"]), rng.choice([frm, frm, rng.choice(universe)])]
        elif r < 0.5:
            to = frm                        # same OID
        else:
            to = rng.choice(universe)       # anything: smaller, cycle, jump out and back
        rep = rng.choice([None, None, 0, 1, 2])
        dev.append((frm, rep, to))
    bulk = rng.randrange(1, 5)
    errors = rng.choice(["strict", "strict", "warn"])
    # another misbehaviour: from its k-th GETBULK request on the agent answers with an empty binding list (status 0)
    empty_from = rng.randrange(1, 4) if op in ("bulkwalk", "bulktable") and rng.random() < 0.15 else None
    # ... and it may legally truncate its GETBULK answers (fewer repetitions, cut inside a repetition)
    trng = rng_for(seed, ID, tier + ":trunc", i)
    policies = trng.sample(["full", "fewer", "partial"], trng.randrange(1, 4)) if op in ("bulkwalk", "bulktable") else ["full"]
    # the same operation may already have been run once on this client against the same agent (a poller): what the first
    # run met (a warning emitted, a faulty answer seen) must not change how the second one ends
    history = "same" if rng_for(seed, ID, tier + ":hist", i).random() < 0.2 else None
    return {"prop": ID, "op": op, "roots": roots, "universe": universe, "dev": dev, "history": history,
            "bulk": bulk, "errors": errors, "empty_from": empty_from, "policies": policies, "polseed": trng.getrandbits(32),
            "proto": {"version": "v2c", "community": "public"}}


def valid(plan: dict) -> bool:
    if not plan["roots"] or not plan["universe"]:
        return False
    if plan["op"] not in ("multiwalk", "bulkwalk") and len(plan["roots"]) != 1:
        return False
    return True


def simplify(plan: dict):
    if plan["op"] in ("table",):
        p = dict(plan); p["op"] = "walk"; yield p
    if plan["op"] in ("bulktable",):
        p = dict(plan); p["op"] = "bulkwalk"; yield p
    if plan["bulk"] > 1:
        p = dict(plan); p["bulk"] = 1; yield p
    if plan["errors"] == "warn":
        p = dict(plan); p["errors"] = "strict"; yield p
    if plan.get("policies") and plan["policies"] != ["full"]:
        p = dict(plan); p["policies"] = ["full"]; yield p
    if plan.get("history"):
        p = dict(plan); p["history"] = None; yield p
    if plan.get("empty_from"):
        p = dict(plan); p["empty_from"] = None; yield p
        if plan["empty_from"] > 1:
            p = dict(plan); p["empty_from"] = 1; yield p


def execute(plan: dict) -> dict:
    roots = [tuple(r) for r in plan["roots"]]
    universe = sorted(tuple(o) for o in plan["universe"])
    dev: Dict[Tuple[tuple, Optional[int]], Any] = {}
    for frm, rep, to in plan["dev"]:
        if to == "eom":
            dev[(tuple(frm), rep)] = "eom"
        elif isinstance(to, (list, tuple)) and to and isinstance(to[0], str):
            dev[(tuple(frm), rep)] = (to[0], tuple(to[1]))      # (marker kind, name)
        else:
            dev[(tuple(frm), rep)] = tuple(to)
    op = plan["op"]
    w = World()
    agent = RefAgent({o: ("int", 1) for o in universe}, communities={1: {b"public"}})
    served: List[Tuple[tuple, int, Any]] = []  # (requested, rep, returned) in serving order
    dev_served = 0

    def succ(oid: tuple, rep: int, req: dict) -> Tuple[tuple, S.Value]:
        nonlocal dev_served
        to = dev.get((oid, rep), dev.get((oid, None)))
        if to is None:
            nxt = agent.successor(oid)
            res = (oid, EOM) if nxt is None else (nxt, ("int", len(nxt)))
        else:
            dev_served += 1
            if to == "eom":
                res = (oid, EOM)
            elif isinstance(to[0], str):
                res = (to[1], (to[0], None))
            else:
                res = (to, ("int", len(to)))
        served.append((oid, rep, res))
        return res

    n_bulk = [0]
    empty_served = [0]

    def hook_pdu(req: dict, resp: dict) -> Optional[dict]:
        if plan.get("empty_from") and req["pdu"]["tag"] == S.PDU_BULK:
            n_bulk[0] += 1
            if n_bulk[0] >= plan["empty_from"]:
                empty_served[0] += 1
                return dict(resp, vbs=[])
        return resp
    agent.hook_pdu = hook_pdu
    pols = plan.get("policies") or ["full"]

    def policy(req: dict) -> tuple:
        from ..loop import keyed as _keyed
        pol = pols[_keyed(plan.get("polseed", 0), "pol", req["n"]) % len(pols)]
        return (pol, 1 + _keyed(plan.get("polseed", 0), "k", req["n"]) % max(1, plan["bulk"]))
    agent.bulk_policy = policy
    agent.successor_fn = succ
    agent.cap = 3 * (len(universe) + len(roots)) + 5
    w.add_agent(agent)
    client = w.client(plan["proto"], timeout=1, retries=1)
    delivered: List[tuple] = []
    exc: Optional[BaseException] = None
    table_rows = None

    async def main() -> None:
        nonlocal table_rows
        if op == "walk":
            agen = client.walk(OID(roots[0]), errors=plan["errors"])
        elif op == "multiwalk":
            agen = client.multiwalk([OID(r) for r in roots], errors=plan["errors"])
        elif op == "bulkwalk":
            agen = client.bulkwalk([OID(r) for r in roots], bulk_size=plan["bulk"])
        elif op == "table":
            table_rows = await client.table(OID(roots[0]))
            return
        else:
            table_rows = await client.bulktable(OID(roots[0][:-1]), bulk_size=plan["bulk"])
            return
        async for vb in agen:
            delivered.append(oid_t(vb.oid))

    if plan.get("history"):
        try:
            w.run(main())
        except Exception:  # noqa: BLE001
            pass                 # the earlier run is some other plan's run under test
        w.settle()
        agent.requests.clear()
        agent.cap_hit = False
        del served[:], delivered[:]
        n_bulk[0] = empty_served[0] = dev_served = 0
        table_rows = None
    try:
        w.run(main())
    except Exception as e:  # noqa: BLE001
        exc = e
    w.settle()

    # ---- analyse the agent's log ------------------------------------------------------
    reqs = [r for r in agent.requests if r["pdu"] is not None]
    requested: List[tuple] = []
    for r in reqs:
        # an OID that got no binding at all in a truncated answer has not been answered: asking again is not "again"
        answered = len(r["resp_pdu"]["vbs"]) if r.get("resp_pdu") and r["pdu"]["tag"] == S.PDU_BULK else len(r["pdu"]["vbs"])
        requested.extend(o for k, (o, _) in enumerate(r["pdu"]["vbs"]) if k < answered or not r.get("resp_pdu"))
    revealed = set()
    relevant_nonadv = any_nonadv = False
    classes = []
    eff_roots = roots if op != "bulktable" else [roots[0][:-1]]

    def in_roots(o: tuple) -> bool:
        return any(len(o) >= len(r) and o[:len(r)] == r for r in eff_roots)

    for r in reqs:
        pdu, resp = r["pdu"], r.get("resp_pdu")
        if not resp:
            continue
        n = len(pdu["vbs"])
        prev = [o for o, _ in pdu["vbs"]]
        still_in = [True] * n           # column was inside its root before this answer
        for k, (o, v) in enumerate(resp["vbs"]):
            col = k % n
            if v[0] == "eom":
                classes.append("eom")
                still_in[col] = False
                continue
            revealed.add(o)
            if not prev[col] < o:
                any_nonadv = True
                classes.append("stall" if o == prev[col] else "back")
                if still_in[col]:
                    relevant_nonadv = True
            else:
                classes.append("adv")
            if not in_roots(o):
                still_in[col] = False
            prev[col] = o

    violation = None

    def fail(clause: str, d: str) -> None:
        nonlocal violation
        if violation is None:
            violation = {"clause": clause, "detail": "%s | op=%s roots=%s requests=%s" % (
                d, op, [S.oid_str(r) for r in roots], [S.oid_str(o) for o in requested][:24])}

    excname = type(exc).__name__ if exc else None
    bound = len(revealed) + len(roots) + 2
    if agent.cap_hit:
        fail("non-termination", "agent request cap %d reached (bound would be %d)" % (agent.cap, bound))
    elif len(reqs) > bound:
        fail("too-many-requests", "%d requests, bound %d" % (len(reqs), bound))
    if len(requested) != len(set(requested)):
        dup = sorted(o for o in set(requested) if requested.count(o) > 1)
        fail("re-request", "requested again from %s" % [S.oid_str(o) for o in dup])
    if len(delivered) != len(set(delivered)):
        fail("duplicate", "an instance was delivered twice")
    for o in delivered:
        if o not in revealed:
            fail("invented", "delivered %s which the agent never returned" % S.oid_str(o))
        elif not in_roots(o):
            fail("outside", "delivered %s which lies outside the roots" % S.oid_str(o))
    lenient = plan["errors"] == "warn" and op in ("walk", "multiwalk")
    if not agent.cap_hit:
        if relevant_nonadv:
            if excname == "FaultySNMPImplementation":
                pass
            elif exc is None and lenient:
                pass
            elif exc is None:
                fail("nonadvance-accepted", "a non-advancing answer did not end the operation with FaultySNMPImplementation")
            else:
                fail("raised:" + excname, "non-advancing answer ended in %s: %s" % (excname, exc))
        elif not any_nonadv:
            if exc is not None:
                fail("raised:" + excname, "all answers advance but the operation raised %s: %s" % (excname, exc))
            elif op in ("walk", "multiwalk", "bulkwalk"):
                want = set(o for o in revealed if any(len(o) > len(r) and o[:len(r)] == r for r in eff_roots))
                got = set(delivered) - set(eff_roots)
                if got != want:
                    fail("missing", "all answers advance; delivered %s, revealed below roots %s" % (
                        sorted(S.oid_str(o) for o in got), sorted(S.oid_str(o) for o in want)))
        else:
            if exc is not None and excname != "FaultySNMPImplementation":
                fail("raised:" + excname, "operation raised %s: %s" % (excname, exc))

    froms = [f for f, _, _ in plan["dev"]]
    probes = {
        "same_oid": int(any(c == "stall" for c in classes)),
        "smaller_oid": int(any(c == "back" for c in classes)),
        "leave_and_return": int(_leave_and_return(served, eff_roots)),
        "eom_midway": int("eom" in classes[:-1]),
        "bulk_nonadvance_later_rep": int(op in ("bulkwalk", "bulktable") and any_nonadv and not relevant_nonadv),
        "same_operation_run_before_on_this_client": int(bool(plan.get("history"))),
        "lenient": int(lenient), "faulty_raised": int(excname == "FaultySNMPImplementation"),
        "all_advance": int(not any_nonadv), "empty_bulk_response": int(empty_served[0] > 0),
        "truncated_bulk_answers": int(op in ("bulkwalk", "bulktable") and (plan.get("policies") or ["full"]) != ["full"]),
        "eom_under_foreign_name": int(any(v[0] == "eom" and o != q for q, _, (o, v) in served)),
        "get_marker_in_getnext_answer": int(any(v[0] in ("nsi", "nso") for _, _, (_, v) in served)),
    }
    counters = dict(w.net.counters)
    for k, v in probes.items():
        counters["probe_" + k] = v
    triggers = []
    if op in ("bulkwalk", "bulktable") and any_nonadv:
        triggers.append("C03-bulk-nonadvance")
    shape = repr((op, plan["errors"], plan["bulk"] if "bulk" in op else 0, len(roots), tuple(classes[:30]), excname))
    out = {
        "violation": violation, "digest": w.net.digest(), "triggers": triggers, "counters": counters,
        "shape": shape, "nontrivial": dev_served > 0 or len(reqs) >= 3 or empty_served[0] > 0,
        "sim_s": w.loop.time(), "exchanges": agent.exchanges,
        "summary": "%s reqs=%d classes=%s exc=%s" % (op, len(reqs), classes[:12], excname),
    }
    w.close()
    return out


def _leave_and_return(served: List[tuple], roots: List[tuple]) -> bool:
    def inr(o: tuple) -> bool:
        return any(len(o) >= len(r) and o[:len(r)] == r for r in roots)
    state = 0
    for _, _, (o, v) in served:
        if v[0] == "eom":
            continue
        if state == 0 and inr(o):
            state = 1
        elif state == 1 and not inr(o):
            state = 2
        elif state == 2 and inr(o):
            return True
    return False


def describe(plan: dict) -> str:
    return "op=%s errors=%s bulk=%s roots=%s\nuniverse=%s\ndeviations=%s" % (
        plan["op"], plan["errors"], plan["bulk"], [S.oid_str(tuple(r)) for r in plan["roots"]],
        [S.oid_str(tuple(o)) for o in plan["universe"]],
        [(S.oid_str(tuple(f)), r, t if t == "eom" else ((t[0], S.oid_str(tuple(t[1]))) if isinstance(t[0], str) else S.oid_str(tuple(t))))
         for f, r, t in plan["dev"]])
