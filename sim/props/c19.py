"""C19 - registered trap listeners receive every matching notification, with its origin."""
from __future__ import annotations

import asyncio
import hashlib
from datetime import timedelta
from typing import Any, Dict, List, Optional, Tuple

from .. import gen, scen
from .. import refber as B
from .. import refsnmp as S
from ..loop import keyed
from ..runner import rng_for
from ..world import X690_WATCH, Meter, WorkBudgetExceeded, World, install_x690_watch, oid_t, to_ref

ID = "C19"
LEVEL = "exploration"
RULE = ("Seeded plans: 1-2 listeners registered with the shipped register_trap_callback(callback, address, port, V2C(c), "
        "loop=SimLoop) (listen and SNMPTrapReceiverProtocol bind a simulated socket), 1-4 emitters with distinct source "
        "addresses (IPv4 2-tuples, or IPv6 peers reported as 4-tuples) sending 3-40 datagrams at plan-chosen virtual instants: well-formed SNMPv2-Trap PDUs built by the "
        "reference encoder (sysUpTime.0, snmpTrapOID.0, 0-8 payload bindings of every value type, minimal or legal long "
        "length forms), the same with a foreign community, strict prefixes (truncations), traps whose outermost identifier "
        "octet is not SEQUENCE, garbage the independent decoder rejects, single-bit flips of a dedicated base trap and other-version messages (the last two: robustness only, no "
        "delivery verdict); network faults on the way: loss, duplication, delay/reordering; callbacks that are slow (overlap) "
        "or raise for some traps. Oracle: per arrival (a duplicated datagram counts twice, a lost one not at all) of a "
        "well-formed matching trap exactly one callback with Trap.source = the emitter's address and exactly the bindings "
        "sent, TrapInfo(origin, uptime, oid, values) equal to the independent pythonisation; foreign-community, truncated, "
        "wrong-outer-tag and garbage datagrams never reach the callback; whatever arrived before, later traps are still delivered (exceptions "
        "end up in the loop's exception handler); the listener socket stays open. Non-trivial: >= 1 valid arrival and >= 1 "
        "bad datagram or network fault; distinct = distinct (sequence of arrival classes per listener, faults fired).")
ASSUMPTIONS = [
    "datagrams are classified by construction (reference encodings are well-formed; strict prefixes and decoder-rejected "
    "garbage are malformed); bit-flipped and other-version datagrams get no delivery verdict",
    "exceptions raised inside datagram_received reach the event loop's exception handler, as with asyncio's selector "
    "datagram transport (reproduced by the simulated transport: delivery runs inside a loop callback)",
]
PROBES = ["no_pdu_in_pdu_position", "other_pdu_type", "same_octets_twice_at_the_same_instant", "payload_binding_named_like_a_header_binding", "notification_over_1024_octets", "foreign_community_with_non_ascii_octets", "first_datagram_other_version", "two_listeners", "foreign_community", "truncated", "garbage", "wrong_outer_tag", "bitflip", "other_version", "dup_arrival", "lost",
          "reordered", "bad_then_valid", "callback_raises", "slow_callback_overlap", "zero_payload", "eight_payload",
          "long_length_forms", "every_value_kind", "duplicate_payload_oid", "four_emitters", "ipv6_peers",
          "indefinite_no_eoc_reached"]
shrink_lists = [("datagrams",), ("faults", "explicit")]
SYSUPTIME = (1, 3, 6, 1, 2, 1, 1, 3, 0)
TRAPOID = (1, 3, 6, 1, 6, 3, 1, 1, 4, 1, 0)
LISTEN_IP = "10.0.0.1"
EVENT_BUDGET = 1_000_000   # counted work for one whole run (<= 80 arrivals at ~3k events each, callbacks included)
MINIMISE_EXECS = 40
KINDS = ["int", "str", "null", "oid", "ip", "c32", "g32", "tt", "opaque", "c64"]


def total(tier: str) -> int:
    return 3000 if tier == "quick" else 100000


def plan_for(tier: str, seed: int, i: int) -> dict:
    rng = rng_for(seed, ID, tier, i)
    listeners = [{"port": 162, "community": rng.choice(["public", "traps", "c0mm-x"])}]
    if rng.random() < 0.25:
        listeners.append({"port": 10162, "community": rng.choice(["public", "other"])})
    n_em = rng.choice([1, 1, 2, 3, 4])
    ipv6 = rng.random() < 0.2   # an IPv6 listener: asyncio reports peers as (host, port, flowinfo, scope_id)
    if ipv6:
        emitters = [["fd00::%x:%x" % (1 + e, rng.randrange(2, 65000)), rng.randrange(1024, 65535), 0, 0] for e in range(n_em)]
    else:
        emitters = [["10.0.%d.%d" % (1 + e, rng.randrange(2, 250)), rng.randrange(1024, 65535)] for e in range(n_em)]
    dgs = []
    t = 0
    t0rng = rng_for(seed, ID, tier + ":t0", i)
    for n in range(rng.randrange(3, 41)):
        t += rng.randrange(1, 40)
        if n == 0 and t0rng.random() < 0.3:
            t = 0      # already on its way when the listener is registered: arrives before the loop has done anything else
        r = rng.random()
        cls = ("valid" if r < 0.5 else "foreign" if r < 0.6 else "truncated" if r < 0.7 else "garbage" if r < 0.78
               else "badtag" if r < 0.84 else "bitflip" if r < 0.92 else "version")
        li = rng.randrange(len(listeners))
        payload = []
        used = set()
        for _ in range(rng.choice([0, 1, 1, 2, 3, 5, 8])):
            o = (1, 3, 6, 1, 4, 1, 8072, 2, 3, 2, rng.randrange(1, 6)) + gen.gen_suffix(rng)
            if o in used and rng.random() < 0.8:
                continue
            used.add(o)
            payload.append((o, gen.gen_value(rng, kind=rng.choice(KINDS), max_str=40)))
        xr = rng_for(seed, ID, tier + ":big", i * 64 + n)
        if xr.random() < 0.06:
            # a notification larger than 1 kB (a log excerpt, a long description)
            big = bytes(xr.getrandbits(8) for _ in range(xr.choice([1100, 2000, 3000])))
            payload.append(((1, 3, 6, 1, 4, 1, 8072, 2, 3, 2, 9, n), ("str", big)))
        yr = xr.random()
        if yr < 0.04:
            # a payload binding that is itself named like one of the two header bindings (what relays/proxies forward)
            payload.append((SYSUPTIME, ("tt", xr.randrange(0, 2**32))))
        elif yr < 0.08:
            payload.append((TRAPOID, ("oid", (1, 3, 6, 1, 4, 1, 99, 1, xr.randrange(1, 9)))))
        zr = xr.random()
        if zr < 0.04:
            cls = "notpdu"       # right community, but no PDU where the PDU belongs (malformed content: never delivered)
        elif zr < 0.08:
            cls = "otherpdu"     # a well-formed message carrying a PDU that is not an SNMPv2-Trap (no delivery verdict)
        twice = xr.random() < 0.05
        d = {"n": n, "t": t, "twice": twice, "emitter": rng.randrange(n_em), "listener": li, "cls": cls,
             "uptime": 100000 + n * 7919, "trap_oid": (1, 3, 6, 1, 4, 1, 8072, 2, 3, 0, 1 + n % 5),
             "payload": payload, "rid": rng.choice([0, 1, 2**31 - 1, -(2**31), rng.randrange(-2**31, 2**31)]),
             "lf": [rng.randrange(0, 4) for _ in range(6)] if rng.random() < 0.2 else None,
             "param": rng.getrandbits(32)}
        dgs.append(d)
    lossy = rng.random() < 0.5
    faults = {"subseed": rng.getrandbits(48), "rates": {}, "explicit": [], "latency": [1, rng.choice([1, 4, 60])]}
    if lossy:
        for k in rng.sample(["drop", "dup", "delay"], rng.randrange(1, 4)):
            faults["rates"][k] = rng.choice([0.05, 0.1, 0.2])
    cb = {"raise_every": rng.choice([0, 0, 0, 3, 2]), "sleep_ticks": rng.choice([0, 0, 0, 10, 200])}
    return {"prop": ID, "listeners": listeners, "emitters": emitters, "datagrams": dgs, "faults": faults, "callback": cb,
            "ipv6": ipv6}


def valid(plan: dict) -> bool:
    return bool(plan["datagrams"])


def simplify(plan: dict):
    if plan.get("ipv6"):
        p = dict(plan); p["ipv6"] = False
        p["emitters"] = [["10.0.%d.9" % (1 + k), e[1]] for k, e in enumerate(plan["emitters"])]; yield p
    if plan["callback"] != {"raise_every": 0, "sleep_ticks": 0}:
        p = dict(plan); p["callback"] = {"raise_every": 0, "sleep_ticks": 0}; yield p
    for k, d in enumerate(plan["datagrams"]):
        if d["payload"]:
            p = dict(plan); p["datagrams"] = list(plan["datagrams"]); p["datagrams"][k] = dict(d, payload=[]); yield p
        if d["lf"]:
            p = dict(plan); p["datagrams"] = list(plan["datagrams"]); p["datagrams"][k] = dict(d, lf=None); yield p


def _lf(forms: Optional[List[int]]) -> S.LF:
    if not forms:
        return S._lf0
    order: Dict[str, int] = {}

    def lf(level: str) -> int:
        if level not in order:
            order[level] = len(order)
        return forms[order[level] % len(forms)]
    return lf


def build(plan: dict, d: dict) -> Tuple[bytes, Optional[list]]:
    """Datagram bytes and, for class 'valid', the bindings a callback must see."""
    comm = plan["listeners"][d["listener"]]["community"].encode()
    vbs = [(SYSUPTIME, ("tt", d["uptime"])), (TRAPOID, ("oid", tuple(d["trap_oid"])))] + \
          [(tuple(o), tuple(v) if isinstance(v, list) else v) for o, v in d["payload"]]
    cls = d["cls"]
    lf = _lf(d["lf"])
    if cls == "bitflip":
        vbs[1] = (TRAPOID, ("oid", (1, 3, 6, 1, 4, 1, 99, 99, 99, 99)))  # base never sent unflipped
    pdu = S.mkpdu(S.PDU_TRAP2, d["rid"], vbs)
    if cls == "otherpdu":
        pdu = S.mkpdu([S.PDU_RESPONSE, S.PDU_GET, S.PDU_SET, S.PDU_INFORM, S.PDU_REPORT][d["param"] % 5], d["rid"], vbs)
    if cls == "notpdu":
        third = [B.enc_int(5), B.enc_str(b"not a pdu"), B.tlv(0x05, b""), B.enc_seq([B.enc_int(d["rid"]), B.enc_int(0), B.enc_int(0), B.enc_seq([])]),
                 B.enc_oid((1, 3, 6, 1, 6, 3, 1, 1, 5, 1))][d["param"] % 5]
        return B.enc_seq([B.enc_int(1), B.enc_str(comm), third]), None
    if cls == "foreign":
        other = [b"", comm + b"x", comm[:-1], comm.upper() if comm.upper() != comm else b"zz", b"private-" + comm,
                 comm + b"\xe9", b"\xc3\xbc" + comm, comm[:3] + b"\xa0" + comm[3:], comm + b"\x00"]
        comm = other[d["param"] % len(other)]
    version = 1
    if cls == "version":
        version = [0, 3, 2, 77][d["param"] % 4]
    raw = S.enc_community_msg(version, comm, S.enc_pdu(pdu, lf), lf)
    if cls == "truncated":
        raw = raw[:d["param"] % len(raw)]
    elif cls == "garbage":
        n = d["param"] % 200
        raw = bytes((keyed(d["param"], "g", j) & 0xFF) for j in range(n))
        if d["param"] % 3 == 0 and raw:
            raw = b"\x30" + raw[1:]
    elif cls == "badtag":
        # an otherwise intact trap whose outermost identifier octet is not SEQUENCE: malformed by construction
        raw = bytes([[0x31, 0x04, 0xA7, 0x00, 0x70, 0x10, 0xB0][d["param"] % 7]]) + raw[1:]
    elif cls == "bitflip":
        b = bytearray(raw)
        pos = d["param"] % (len(b) * 8)
        b[pos // 8] ^= 1 << (pos % 8)
        raw = bytes(b)
    return raw, (vbs if cls == "valid" else None)


def _garbage_is_malformed(raw: bytes) -> bool:
    try:
        S.decode_message(raw)
    except B.BerError:
        return True
    return False


def execute(plan: dict) -> dict:
    from puresnmp.api.pythonic import TrapInfo
    from puresnmp.api.raw import register_trap_callback
    from puresnmp.credentials import V2C
    w = World(faults=plan["faults"])
    loop = w.loop
    got: List[dict] = []
    cbcfg = plan["callback"]
    running = {"n": 0, "max": 0, "raised": 0}

    def make_cb(li: int) -> Any:
        async def callback(trap: Any) -> None:
            k = len(got)
            rec: Dict[str, Any] = {"listener": li, "t": loop.time()}
            got.append(rec)
            try:
                rec["source"] = (trap.source.address, trap.source.port) if trap.source is not None else None
                rec["vbs"] = [(oid_t(vb.oid), to_ref(vb.value)) for vb in trap.value.varbinds]
                rec["rid"] = trap.value.request_id
                rec["tag"] = type(trap).__name__
                info = TrapInfo(trap)
                rec["info"] = (info.origin, info.uptime, info.oid, info.values)
            except Exception as e:  # noqa: BLE001
                rec["error"] = "%s: %s" % (type(e).__name__, e)
            running["n"] += 1
            running["max"] = max(running["max"], running["n"])
            try:
                if cbcfg["sleep_ticks"]:
                    await asyncio.sleep(cbcfg["sleep_ticks"] / 1024.0)
            finally:
                running["n"] -= 1
            if cbcfg["raise_every"] and (k + 1) % cbcfg["raise_every"] == 0:
                running["raised"] += 1
                raise RuntimeError("callback failure injected by the harness")
        return callback

    listen_ip = "fd00::1" if plan.get("ipv6") else LISTEN_IP
    for li, l in enumerate(plan["listeners"]):
        register_trap_callback(make_cb(li), listen_ip, l["port"], V2C(l["community"]), loop=loop)
    listen_socks = list(w.net.all_sockets)
    not_listening = [l["port"] for l in plan["listeners"] if (listen_ip, l["port"]) not in w.net.bound]
    records: List[dict] = []
    by_idx: Dict[int, dict] = {}
    pending: Dict[Tuple[tuple, bytes], List[dict]] = {}

    def tap(direction: str, idx: int, data: bytes, src: tuple, dst: tuple) -> None:
        lst = pending.get((src, dst, data))
        if lst:
            by_idx[idx] = lst.pop(0)

    w.net.tap = tap
    t_last = 0
    for d in plan["datagrams"]:
        raw, vbs = build(plan, d)
        cls = d["cls"]
        if cls == "garbage" and not _garbage_is_malformed(raw):
            cls = "unclassified"
        em = plan["emitters"][d["emitter"] % len(plan["emitters"])]
        src = tuple(em)
        dst = (listen_ip, plan["listeners"][d["listener"]]["port"])
        rec = {"n": d["n"], "cls": cls, "raw": raw, "vbs": vbs, "src": src, "listener": d["listener"], "d": d}
        records.append(rec)
        # "twice": the emitter sends the very same octets twice at the same instant (a retransmitting relay): two arrivals
        for _ in range(2 if d.get("twice") else 1):
            pending.setdefault((src, dst, raw), []).append(rec)
            w.net.inject(src, dst, raw, delay_ticks=d["t"], direction="a2c")
        t_last = max(t_last, d["t"])

    async def main() -> None:
        await asyncio.sleep((t_last + 8192) / 1024.0)

    install_x690_watch()
    indef0 = X690_WATCH["indef_no_eoc"]
    hang = None
    Meter.start(EVENT_BUDGET)
    try:
        w.run(main())
    except WorkBudgetExceeded as e:
        hang = e
    finally:
        Meter.stop()
    if hang is None and Meter.tripped:
        hang = WorkBudgetExceeded(EVENT_BUDGET)   # raised inside a callback task and kept there by asyncio
    indef = X690_WATCH["indef_no_eoc"] > indef0
    if hang is None:
        w.settle()
    # arrivals at the listeners, in order
    arrivals: List[dict] = []
    for ev in w.net.events:
        if ev[2] == "arrive" and ev[3] == "a2c" and ev[4] in by_idx:
            arrivals.append(by_idx[ev[4]])
    violation = None
    triggers: List[str] = []

    def fail(clause: str, d: str) -> None:
        nonlocal violation
        if violation is None:
            violation = {"clause": clause, "detail": d}

    if not_listening:
        fail("listener-not-listening", "register_trap_callback returned but nothing is bound to port(s) %s yet: a notification "
             "arriving now (before the loop runs again) has no socket to arrive at" % not_listening)
    if hang is not None:
        last = arrivals[-1] if arrivals else None
        fail("listener-hang", "the listener did not finish processing datagram %s within %d counted events (function "
             "entries, calls, loop jumps): it can never deliver a later notification" % (
                 "#%d (%s) %s" % (last["n"], last["cls"], last["raw"].hex()[:120]) if last else "?", EVENT_BUDGET))
        if indef:
            triggers.append("C19-x690-indefinite-length-without-eoc")
    expected: Dict[int, int] = {}
    for a in arrivals:
        if a["cls"] == "valid":
            expected[a["n"]] = expected.get(a["n"], 0) + 1
    by_uptime = {r["d"]["uptime"]: r for r in records if r["cls"] == "valid"}
    seen: Dict[int, int] = {}
    unmatched = 0
    view_errors: List[str] = []
    for g in got:
        if "vbs" not in g and "error" not in g:
            continue    # the run was cut short by the work budget while this callback was reading its argument
        if "error" in g:
            # lazily decoded content that cannot be read: can only stem from a datagram without delivery verdict
            # (a well-formed trap whose view fails is reported as not-delivered below, with this error)
            unmatched += 1
            g["unmatched"] = True
            view_errors.append(g["error"])
            continue
        vbs = g["vbs"]
        rec = None
        if vbs and vbs[0][0] == SYSUPTIME and vbs[0][1][0] == "tt":
            rec = by_uptime.get(vbs[0][1][1])
        if rec is None or vbs != rec["vbs"] or g["listener"] != rec["listener"]:
            unmatched += 1
            g["unmatched"] = True
            continue
        seen[rec["n"]] = seen.get(rec["n"], 0) + 1
        if g["source"] != rec["src"][:2]:
            fail("origin", "trap #%d from %s:%d delivered with source %r" % (rec["n"], rec["src"][0], rec["src"][1], g["source"]))
        if g["tag"] != "Trap":
            fail("pdu-type", "trap #%d delivered as %s" % (rec["n"], g["tag"]))
        if g["rid"] != rec["d"]["rid"]:
            fail("bindings", "trap #%d delivered with request id %r, sent %r" % (rec["n"], g["rid"], rec["d"]["rid"]))
        payload = rec["vbs"][2:]
        want_values = {S.oid_str(o): scen.pythonize_ref(v) for o, v in payload}
        want_info = (rec["src"][0], timedelta(microseconds=10_000 * rec["d"]["uptime"]),
                     S.oid_str(tuple(rec["d"]["trap_oid"])), want_values)
        if len(want_values) == len(payload) and g["info"] != want_info:
            fail("trapinfo", "trap #%d: TrapInfo %r, expected %r" % (rec["n"], g["info"], want_info))
        elif g["info"][:3] != want_info[:3]:
            fail("trapinfo", "trap #%d: TrapInfo %r, expected %r" % (rec["n"], g["info"][:3], want_info[:3]))
    n_noverdict = sum(1 for a in arrivals if a["cls"] in ("bitflip", "version", "unclassified", "otherpdu"))
    for n, cnt in sorted(expected.items()):
        if seen.get(n, 0) < cnt:
            fail("not-delivered", "trap #%d arrived %d time(s) at the listener, callback ran %d time(s) for it; arrivals "
                 "before it: %s; unreadable callback arguments: %s" % (n, cnt, seen.get(n, 0), _before(arrivals, n),
                                                                      view_errors[:2]))
        elif seen.get(n, 0) > cnt:
            fail("delivered-twice", "trap #%d arrived %d time(s), callback ran %d times" % (n, cnt, seen[n]))
    for n in seen:
        if n not in expected:
            fail("delivered-without-arrival", "callback ran for trap #%d which never arrived" % n)
    if unmatched > n_noverdict:
        bad = [g for g in got if g.get("unmatched")][0]
        fail("bad-datagram-delivered", "%d callback(s) for content no emitter sent as a well-formed matching trap "
             "(only %d bit-flipped/other-version arrivals could explain them); first: listener %d source %r bindings %r %s" % (
                 unmatched, n_noverdict, bad["listener"], bad.get("source"), bad.get("vbs", [])[:3], bad.get("error", "")))
    for s in listen_socks:
        if not s.sock_open or s.is_closing():
            fail("listener-closed", "listener socket %d was closed" % s.sock_id)
    arr_cls = [a["cls"] for a in arrivals]
    fired = set(f[2] for f in w.net.fired)
    order = [a["n"] for a in arrivals]
    first_valid_after_bad = any(c == "valid" and any(x in ("truncated", "garbage", "foreign", "bitflip", "version", "badtag", "notpdu", "otherpdu")
                                                     for x in arr_cls[:k]) for k, c in enumerate(arr_cls))
    kinds_seen = set(v[0] for r in records if r["cls"] == "valid" for _, v in r["vbs"][2:])
    probes = {
        "no_pdu_in_pdu_position": int("notpdu" in arr_cls), "other_pdu_type": int("otherpdu" in arr_cls),
        "same_octets_twice_at_the_same_instant": int(any(d.get("twice") and d["cls"] == "valid" for d in plan["datagrams"])),
        "payload_binding_named_like_a_header_binding": int(any(
            r["cls"] == "valid" and any(tuple(o) in (SYSUPTIME, TRAPOID) for o, _ in r["vbs"][2:]) for r in arrivals)),
        "notification_over_1024_octets": int(any(a["cls"] == "valid" and len(a["raw"]) > 1024 for a in arrivals)),
        "foreign_community_with_non_ascii_octets": int(any(d["cls"] == "foreign" and d["param"] % 9 in (5, 6, 7) for d in plan["datagrams"])),
        "first_datagram_other_version": int(bool(arrivals) and arrivals[0]["cls"] == "version"),
        "two_listeners": int(len(plan["listeners"]) > 1), "foreign_community": int("foreign" in arr_cls),
        "truncated": int("truncated" in arr_cls), "garbage": int("garbage" in arr_cls), "bitflip": int("bitflip" in arr_cls),
        "wrong_outer_tag": int("badtag" in arr_cls),
        "other_version": int("version" in arr_cls), "dup_arrival": int(any(c > 1 for c in expected.values())),
        "lost": int("drop" in fired), "reordered": int(order != sorted(order)),
        "bad_then_valid": int(first_valid_after_bad), "callback_raises": int(running["raised"] > 0),
        "slow_callback_overlap": int(running["max"] > 1),
        "zero_payload": int(any(r["cls"] == "valid" and len(r["vbs"]) == 2 for r in records)),
        "eight_payload": int(any(r["cls"] == "valid" and len(r["vbs"]) >= 9 for r in records)),
        "long_length_forms": int(any(r["cls"] == "valid" and r["d"]["lf"] for r in records)),
        "every_value_kind": int(len(kinds_seen) >= 8),
        "duplicate_payload_oid": int(any(r["cls"] == "valid" and len(set(o for o, _ in r["vbs"])) < len(r["vbs"]) for r in records)),
        "four_emitters": int(len(plan["emitters"]) >= 4), "ipv6_peers": int(bool(plan.get("ipv6"))),
        "indefinite_no_eoc_reached": int(indef),
    }
    counters = dict(w.net.counters)
    counters["callbacks"] = len(got)
    counters["arrivals_valid"] = sum(expected.values())
    counters["loop_exceptions"] = len(loop.exceptions)
    for c in ("foreign", "truncated", "garbage", "badtag", "bitflip", "version"):
        counters["fault_dgram_" + c] = arr_cls.count(c)
    for k, v in probes.items():
        counters["probe_" + k] = v
    shape = hashlib.sha256(repr((arr_cls, [a["listener"] for a in arrivals], sorted(fired))).encode()).hexdigest()[:16]
    out = {
        "violation": violation, "digest": w.net.digest(), "fired": list(w.net.fired), "triggers": triggers, "counters": counters,
        "shape": shape, "nontrivial": bool(expected) and (len(set(arr_cls)) > 1 or bool(fired)),
        "sim_s": loop.time(), "exchanges": len(arrivals), "sets": {"events_per_run_max": [Meter.count]},
        "summary": "%d datagrams, %d arrivals (%s), %d callbacks, %d loop exceptions" % (
            len(records), len(arrivals), ",".join("%s=%d" % (c, arr_cls.count(c)) for c in sorted(set(arr_cls))),
            len(got), len(loop.exceptions)),
    }
    w.close()
    return out


def _before(arrivals: List[dict], n: int) -> str:
    out = []
    for a in arrivals:
        if a["n"] == n:
            break
        out.append("%s#%d" % (a["cls"], a["n"]))
    return " ".join(out[-8:]) or "(none)"


def describe(plan: dict) -> str:
    lines = ["listeners=%s emitters=%s callback=%s faults=%s" % (
        plan["listeners"], plan["emitters"], plan["callback"],
        plan["faults"].get("explicit") or plan["faults"].get("rates"))]
    for d in plan["datagrams"]:
        raw, _ = build(plan, d)
        lines.append("t=%d tick #%d %s -> listener %d from emitter %d: %s" % (
            d["t"], d["n"], d["cls"], d["listener"], d["emitter"], raw.hex()[:160]))
    return "\n".join(lines)
