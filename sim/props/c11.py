"""C11 - USM privacy: the scoped PDU only ever travels as the plug-in's ciphertext."""
from __future__ import annotations

from typing import Any, Dict, List

from .. import gen, scen
from .. import refsnmp as S
from .. import refusm as U
from ..refber import BerError
from ..runner import rng_for
from ..world import World, agent_for, agent_user, make_credentials

ID = "C11"
LEVEL = "exploration"
RULE = ("Seeded plans: harness privacy plug-ins verifstream (length preserving) and verifstream2 (ciphertext 8 octets longer), "
        "loaded by puresnmp's own loader through the puresnmp_plugins.priv namespace and recording every call, x MD5/SHA-1 x "
        "passwords x engine ids x operations x context names x payloads; SET values contain 16-octet marker strings; the agent "
        "answers after a plan-chosen processing delay so that the response's engine time and salt differ from the request's. "
        "Oracle: (1) msgData is exactly the ciphertext the plug-in returned for the intended scoped PDU and "
        "msgPrivacyParameters its salt, (2) the key argument equals the reference localisation of the privacy password with the "
        "user's authentication hash and the discovered engine id, boots/time arguments equal the discovered values, (3) neither "
        "the plaintext scoped PDU nor a marker occurs in the datagram, (4) encrypted responses give the model result and the "
        "decrypt call used the parameters found in the response. Non-trivial: >=1 encrypted exchange; distinct = distinct "
        "(plug-in, hash, operation, payload class, delay, context).")
ASSUMPTIONS = [
    "the plug-in satisfies decrypt(encrypt(x)) = x (checked for the harness plug-ins in every run)",
    "the plug-in namespace is the seam the property prescribes; the repository ships no real cipher",
]
PROBES = ["verifstream2", "slow_agent_time_differs", "set_with_marker", "context_name", "md5", "sha1", "walk_many_exchanges",
          "priv_pass_differs_from_auth_pass", "configured_context_engine", "key_rotation", "hash_rotation", "plugin_rotation", "priv_without_auth", "engine_id_with_zero_run", "engine_time_near_max", "agent_clock_ahead", "agent_clock_slow_response_older_than_estimate", "padded_plaintext"]
shrink_lists: List[tuple] = []
OPS = ["get", "multiget", "getnext", "set", "multiset", "bulkget", "walk"]
BASE = (1, 3, 6, 1, 2, 1, 7)
MARKER = b"<<SECRET-MARKER>>"[:16]


def total(tier: str) -> int:
    return 2500 if tier == "quick" else 60000


def plan_for(tier: str, seed: int, i: int) -> dict:
    rng = rng_for(seed, ID, tier, i)
    auth_pass = gen.gen_bytes(rng, rng.choice([1, 8, 10, 33, 64, 100]))
    srng = rng_for(seed, ID, tier + ":pw", i)
    structured = srng.random() < 0.06
    proto = {"version": "v3", "user": rng.choice(["u", "alice"]), "level": 3,
             "auth": rng.choice(["md5", "sha1"]), "auth_pass": auth_pass,
             "priv": rng.choice(["verifstream", "verifstream2"]),
             "priv_pass": auth_pass if rng.random() < 0.2 else gen.gen_bytes(rng, rng.choice([1, 8, 17, 64, 200]))}
    if structured:
        proto["priv_pass"] = gen.gen_structured_passphrase(srng)
        if srng.random() < 0.5:
            proto["auth_pass"] = gen.gen_structured_passphrase(srng)
    zrng = rng_for(seed, ID, tier + ":z", i)
    eng = b"\x80" + gen.gen_bytes(rng, rng.choice([4, 11, 31]))
    if zrng.random() < 0.12:
        eng = b"\x80\x00" + b"\x00" * zrng.choice([10, 12, 13, 20]) + b"\x01"      # legal engine id with a long run of zero octets
    return {"prop": ID, "proto": proto, "engine_id": eng,
            "op": rng.choice(OPS), "payload": rng.choice([0, 1, 16, 100, 127, 128, 300]),
            "context_name": gen.gen_bytes(rng, rng.choice([0, 0, 6, 32])),
            "delay_s": rng.choice([0, 0, 1, 2, 3]), "boots": rng.choice([1, 7, 65536]), "time0": rng.choice([0, 149, 4000, 2**24, 2**31 - 1 - 3600]),
            # a context engine id configured by the user (proxy / remote context): keys stay localised to the AGENT's engine
            "engine_cfg": gen.gen_bytes(rng, rng.choice([5, 12])) if rng.random() < 0.25 else b"",
            # key rotation on the same client: same user and engine, new privacy password and/or authentication hash
            "rotate": rng.choice([None, None, "priv_pass", "hash", "both", "plugin"]),
            "priv_pass2": gen.gen_bytes(rng, rng.choice([1, 9, 40])), "ctx_echo": rng.random() < 0.3,
            # the agent's clock runs ahead of what the client can estimate (forward step after discovery, inside the window)
            "skew_s": rng.choice([0, 0, 1, 7, 100]),
            # ... or behind it: the agent's clock drifts (runs slower than the client's monotonic estimate)
            "rate": rng.choice([1.0, 1.0, 0.75, 0.5]),
            # block-cipher agents pad the plaintext scoped PDU to a multiple of the block size before encrypting
            # (RFC 3414 8.1.1.2); an exactly inverting plug-in hands the padded plaintext back
            "pad": rng.choice([0, 0, 1, 7, 8, 15]),
            # a user configured with a privacy key but WITHOUT an authentication key (privacy requires authentication,
            # RFC 3414): nothing may leave the client, least of all the scoped PDU in clear
            "misconfig": zrng.random() < 0.04}


def simplify(plan: dict):
    if plan.get("misconfig"):
        return
    if plan.get("rotate"):
        p = dict(plan); p["rotate"] = None; yield p
    if plan.get("engine_cfg"):
        p = dict(plan); p["engine_cfg"] = b""; yield p
    if plan.get("skew_s"):
        p = dict(plan); p["skew_s"] = 0; yield p
    if plan.get("pad"):
        p = dict(plan); p["pad"] = 0; yield p
    if plan.get("rate", 1.0) != 1.0:
        p = dict(plan); p["rate"] = 1.0; yield p
    if plan["delay_s"]:
        p = dict(plan); p["delay_s"] = 0; yield p
    if plan["context_name"]:
        p = dict(plan); p["context_name"] = b""; yield p
    if plan["op"] != "get":
        p = dict(plan); p["op"] = "get"; yield p


def _execute_misconfigured(plan: dict) -> dict:
    proto = {k: v for k, v in plan["proto"].items() if not k.startswith("auth")}
    w = World()
    mib = {BASE + (1, 1, 2): ("int", 42)}
    agent = w.add_agent(agent_for(plan["proto"], mib, engine_id=plan["engine_id"]))
    client = w.client(proto, timeout=2, retries=1)
    exc = None
    try:
        w.run(scen.do_op(client, {"op": "set", "oid": BASE + (1, 1, 2), "val": ("str", MARKER + b"secret")}))
    except Exception as e:  # noqa: BLE001
        exc = e
    w.settle()
    violation = None
    data = [r for r in agent.requests if not r.get("discovery")]
    if exc is None:
        violation = {"clause": "misconfigured-credentials-accepted", "detail": "V3(user, auth=None, priv=...) was used without an error"}
    for r in agent.requests:
        if MARKER in r["raw"]:
            violation = {"clause": "plaintext-on-wire", "detail": "privacy key without authentication key: the SET value left the "
                         "client in clear (%s...)" % r["raw"].hex()[:80]}
    if violation is None and data:
        violation = {"clause": "misconfigured-credentials-accepted", "detail": "a request left the client: %s" % data[0]["raw"].hex()[:80]}
    out = {"violation": violation, "digest": w.net.digest(), "triggers": [], "counters": dict(w.net.counters, probe_priv_without_auth=1),
           "shape": "misconfig", "nontrivial": True, "sim_s": w.loop.time(), "exchanges": agent.exchanges,
           "summary": "priv without auth -> %s" % (type(exc).__name__ if exc else "accepted")}
    w.close()
    return out


def execute(plan: dict) -> dict:
    if plan.get("misconfig"):
        return _execute_misconfigured(plan)
    import puresnmp_plugins.priv.verifstream as vs
    proto = plan["proto"]
    w = World()
    body = MARKER + b"p" * plan["payload"]
    # the last object's value ends in a zero octet (INTEGER 0 / Counter 1000000000 / IpAddress x.x.x.0 / NULL):
    # the plaintext scoped PDU then ends in 00, which a padding-stripping receiver would mangle
    last = [("c32", 7), ("int", 0), ("c32", 1000000000 - 1000000000 % 256), ("ip", bytes([10, 0, 0, 0])), ("null", None)][plan["payload"] % 5]
    mib = {BASE + (1, 1, 1): ("str", body), BASE + (1, 1, 2): ("int", 42), BASE + (1, 2, 1): last}
    agent = w.add_agent(agent_for(proto, mib, engine_id=plan["engine_id"], boots=plan["boots"], time0=plan["time0"]))
    agent.delay_for = lambda req: 0 if req.get("discovery") else plan["delay_s"] * 1024
    agent.report_ctx_echo = bool(plan.get("ctx_echo"))
    agent.rate = float(plan.get("rate", 1.0))
    if plan.get("pad"):
        agent.hook_scoped = lambda req, scoped: scoped if req.get("report") else scoped + bytes([plan["pad"]]) * plan["pad"]
    if plan.get("skew_s"):
        def hook_v3(req: dict, f: dict) -> dict:
            if req.get("discovery") and not getattr(agent, "_stepped", False):
                agent._stepped = True  # type: ignore[attr-defined]
                w.loop.call_soon(lambda: agent.clock_step(w.loop.time(), plan["skew_s"]))
            return f
        agent.hook_v3 = hook_v3
    client = w.client(proto, timeout=6, retries=1, context_name=plan["context_name"], engine_id=plan.get("engine_cfg", b""))
    o1, o2, o3 = sorted(mib)
    setval = ("str", MARKER + b"s" * plan["payload"])
    op = {"get": {"op": "get", "oid": o1}, "multiget": {"op": "multiget", "oids": [o1, o2, o3]},
          "getnext": {"op": "getnext", "oid": BASE + (1, 1)},
          "set": {"op": "set", "oid": o2, "val": setval},
          "multiset": {"op": "multiset", "items": [(o2, setval), (o3, ("str", MARKER))]},
          "bulkget": {"op": "bulkget", "scalars": [o2], "repeaters": [BASE + (1,)], "maxrep": 3},
          "walk": {"op": "walk", "root": BASE + (1,)}}[plan["op"]]
    violation = None

    def fail(clause: str, d: str) -> None:
        nonlocal violation
        if violation is None:
            violation = {"clause": clause, "detail": "%s | %s" % (d, describe(plan))}

    phases = [proto]
    rot = plan.get("rotate")
    if rot:
        p2 = dict(proto)
        if rot in ("priv_pass", "both"):
            p2["priv_pass"] = plan["priv_pass2"]
        if rot in ("hash", "both"):
            p2["auth"] = "sha1" if proto["auth"] == "md5" else "md5"
        if rot == "plugin":
            p2["priv"] = "verifstream2" if proto["priv"] == "verifstream" else "verifstream"
        phases.append(p2)
    time_differs = older = False
    n_enc = n_dec = 0
    excname = None
    for ph, proto in enumerate(phases):
        if ph > 0:
            u = agent_user(proto)
            agent.users[u.name] = u
            client.configure(credentials=make_credentials(proto))
        c0, r0 = len(vs.CALLS), len(agent.requests)
        cur = dict(agent.mib)
        res = exc = None

        async def one() -> Any:
            return await scen.do_op(client, op)
        try:
            res = w.run(one())
        except Exception as e:  # noqa: BLE001
            exc = e
        w.settle()
        calls = list(vs.CALLS)[c0:]
        encs = [c for c in calls if c["op"] == "enc"]
        decs = [c for c in calls if c["op"] == "dec"]
        data = [r for r in agent.requests[r0:] if not r.get("discovery")]
        disco = [r for r in agent.requests if r.get("discovery")]
        want_key = U.localised_key(proto["auth"], proto["priv_pass"], plan["engine_id"])
        disco_time = S.decode_message(disco[0]["responses"][0])["sec"]["time"] if disco and disco[0]["responses"] else None
        # plug-in sanity (assumption of the property)
        for c in encs[:1]:
            mod = vs if c["method"] == "verifstream" else __import__("puresnmp_plugins.priv.verifstream2", fromlist=["x"])
            n_before = len(vs.CALLS)
            back = mod.decrypt_data(c["key"], c["engine_id"], c["boots"], c["time"], c["salt"], c["cipher"])
            del vs.CALLS[n_before:]
            if back != c["plain"]:
                fail("harness", "plug-in does not invert itself")
        if len(encs) != len(data):
            fail("encrypt-call-count", "%d encrypt calls for %d requests" % (len(encs), len(data)))
        for c, r in zip(encs, data):
            where = "request #%d" % r["n"]
            raw = r["raw"]
            try:
                msg = S.decode_message(raw)
            except BerError as be:
                fail("not-well-formed", "%s: %s" % (where, be))
                continue
            if msg["encrypted"] is None:
                fail("plaintext-on-wire", "%s: msgData is not an OCTET STRING" % where)
                continue
            if msg["encrypted"] != c["cipher"]:
                fail("ciphertext-mismatch", "%s: msgData differs from what the plug-in returned" % where)
            if msg["sec"]["priv"] != c["salt"]:
                fail("salt-mismatch", "%s: msgPrivacyParameters %r, plug-in salt %r" % (where, msg["sec"]["priv"], c["salt"]))
            if c["method"] != proto["priv"]:
                fail("wrong-plug-in", "%s: plug-in %s used" % (where, c["method"]))
            if c["key"] != want_key:
                fail("wrong-key", "%s: key %s, reference localisation %s" % (where, c["key"].hex(), want_key.hex()))
            if c["engine_id"] != plan["engine_id"] or c["boots"] != plan["boots"]:
                fail("wrong-parameters", "%s: engine id/boots %r/%r" % (where, c["engine_id"], c["boots"]))
            if disco_time is not None and not disco_time <= c["time"] <= disco_time + int(w.loop.time()) + 1 + plan.get("skew_s", 0):
                fail("wrong-parameters", "%s: time %r, discovered %r" % (where, c["time"], disco_time))
            if (c["boots"], c["time"]) != (msg["sec"]["boots"], msg["sec"]["time"]):
                fail("wrong-parameters", "%s: plug-in got boots/time %r, message carries %r" % (
                    where, (c["boots"], c["time"]), (msg["sec"]["boots"], msg["sec"]["time"])))
            try:
                scoped = S.decode_scoped_bytes(c["plain"])
            except BerError as be:
                fail("plaintext-not-scoped-pdu", "%s: %s" % (where, be))
                continue
            want_ctx_engine = plan.get("engine_cfg") or plan["engine_id"]
            if scoped["ctx_engine"] != want_ctx_engine or scoped["ctx_name"] != plan["context_name"]:
                fail("context", "%s: %r/%r" % (where, scoped["ctx_engine"], scoped["ctx_name"]))
            if r.get("scoped") is not None and scoped["pdu"] != r["scoped"]["pdu"]:
                fail("ciphertext-mismatch", "%s: agent decrypted a different PDU" % where)
            if c["plain"] in raw or (len(c["plain"]) > 24 and c["plain"][8:-8] in raw):
                fail("plaintext-on-wire", "%s: the plaintext scoped PDU occurs in the datagram" % where)
            if MARKER in raw:
                fail("plaintext-on-wire", "%s: a marker string occurs in the datagram" % where)
            if r["verdict"] != "ok":
                fail("request-refused:" + r["verdict"], "%s: agent verdict %s" % (where, r["verdict"]))
        # responses
        resp_by_salt = {}
        for r in data:
            for raw in r["responses"]:
                m = S.decode_message(raw)
                resp_by_salt[m["sec"]["priv"]] = m
                if m["sec"]["time"] != r["msg"]["sec"]["time"]:
                    time_differs = True
                if m["sec"]["time"] < r["msg"]["sec"]["time"]:
                    older = True
        for c in decs:
            m = resp_by_salt.get(c["salt"])
            if m is None:
                fail("decrypt-parameters", "decrypt called with salt %r which no response carried" % c["salt"])
                continue
            if (c["engine_id"], c["boots"], c["time"]) != (m["sec"]["engine_id"], m["sec"]["boots"], m["sec"]["time"]):
                fail("decrypt-parameters", "decrypt got %r, the response carries %r" % (
                    (c["engine_id"], c["boots"], c["time"]), (m["sec"]["engine_id"], m["sec"]["boots"], m["sec"]["time"])))
            if c["key"] != want_key:
                fail("wrong-key", "decrypt key %s, reference %s" % (c["key"].hex(), want_key.hex()))
            if c["cipher"] != m["encrypted"]:
                fail("decrypt-parameters", "decrypt input differs from the response's msgData")
        excname = type(exc).__name__ if exc else None
        if exc is not None:
            fail("raised:" + excname, "%s: %s" % (excname, exc))
        else:
            want: Any = None
            if plan["op"] == "get":
                want = cur[o1]
            elif plan["op"] == "multiget":
                want = [cur[o1], cur[o2], cur[o3]]
            elif plan["op"] == "getnext":
                want = (o1, cur[o1])
            elif plan["op"] == "set":
                want = setval
            elif plan["op"] == "walk":
                want = sorted(cur.items())
            if want is not None and res != want:
                fail("wrong-result", "call returned %r, model %r" % (str(res)[:100], str(want)[:100]))
        n_enc += len(encs)
        n_dec += len(decs)
    proto = plan["proto"]
    probes = {
        "verifstream2": int(proto["priv"] == "verifstream2"), "slow_agent_time_differs": int(time_differs),
        "set_with_marker": int(plan["op"] in ("set", "multiset")), "context_name": int(bool(plan["context_name"])),
        "md5": int(proto["auth"] == "md5"), "sha1": int(proto["auth"] == "sha1"),
        "walk_many_exchanges": int(plan["op"] == "walk"),
        "priv_pass_differs_from_auth_pass": int(proto["priv_pass"] != proto["auth_pass"]),
        "configured_context_engine": int(bool(plan.get("engine_cfg"))),
        "key_rotation": int(plan.get("rotate") in ("priv_pass", "both")), "hash_rotation": int(plan.get("rotate") in ("hash", "both")),
        "plugin_rotation": int(plan.get("rotate") == "plugin"),
        "engine_id_with_zero_run": int(b"\x00" * 10 in plan["engine_id"]), "engine_time_near_max": int(plan["time0"] == 2**31 - 1 - 3600),
        "agent_clock_ahead": int(bool(plan.get("skew_s"))),
        "agent_clock_slow_response_older_than_estimate": int(older), "padded_plaintext": int(bool(plan.get("pad"))),
    }
    counters = dict(w.net.counters)
    counters["encrypt_calls"] = n_enc
    counters["decrypt_calls"] = n_dec
    for kk, v in probes.items():
        counters["probe_" + kk] = v
    out = {
        "violation": violation, "digest": w.net.digest(), "triggers": [], "counters": counters,
        "shape": repr((proto["priv"], proto["auth"], plan["op"], plan["payload"], plan["delay_s"], len(plan["context_name"]),
                       len(plan["engine_id"]))),
        "nontrivial": n_enc > 0, "sim_s": w.loop.time(), "exchanges": agent.exchanges,
        "summary": "%s %s/%s enc=%d dec=%d -> %s" % (plan["op"], proto["priv"], proto["auth"], n_enc, n_dec,
                                                     excname or "ok"),
    }
    w.close()
    return out


def describe(plan: dict) -> str:
    p = plan["proto"]
    return "plug-in=%s hash=%s op=%s payload=%d delay=%ds engine=%d octets ctx=%d boots=%d time0=%d" % (
        p["priv"], p["auth"], plan["op"], plan["payload"], plan["delay_s"], len(plan["engine_id"]),
        len(plan["context_name"]), plan["boots"], plan["time0"])
