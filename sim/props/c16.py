"""C16 - table fetches: one row per index, every cell exactly once, both variants agree."""
from __future__ import annotations

import hashlib
from typing import Any, Dict, List, Optional, Tuple

from .. import gen, scen
from .. import refsnmp as S
from ..loop import keyed
from ..runner import rng_for
from ..world import OID, PyWrapper, World, agent_for, gen_proto

ID = "C16"
LEVEL = "exploration"
RULE = ("Seeded plans: a conceptual table T (entry T.1, 1-8 columns with arbitrary column numbers, 0-12 rows, index "
        "suffixes of 1-4 components incl. IP-like and 2^32-1 sub-identifiers, fixed or mixed index arity, cells present "
        "with probability 0.5-1), scalars directly before and after, optionally a second "
        "table adjacent to it, the table possibly the last thing in the MIB view; v2c and v3 at every level; bulk size 1-40 "
        "with the agent's per-response GETBULK truncation policy drawn from the plan; optional loss/dup/delay with "
        "retransmission. The four variants Client.table(entry), Client.bulktable(table), PyWrapper.table(entry), "
        "PyWrapper.bulktable(table) run on one client against the same agent. Oracle: each result equals the generated "
        "table (one row per distinct index, key '0' = dotted full index, one key per held cell and no other, values by "
        "type and content; for the wrapper the independent pythonisation), hence nothing from the neighbours and all "
        "variants agree. Non-trivial: >= 1 row and >= 2 variants completed; distinct = distinct (protocol, columns, rows, "
        "arity, sparsity, bulk, policies used, faults fired, outcomes).")
ASSUMPTIONS = [
    "table() is addressed by the entry OID and bulktable() by the table OID, as their documentation and tests prescribe",
    "the only object below the table OID is the entry (T.1), as in every SMIv2 conceptual table",
    "lossy configuration: a variant may end in Timeout, never in a different table",
]
PROBES = ["empty_table", "sparse", "multi_component_index", "mixed_arity", "adjacent_second_table",
          "table_ends_view", "bulk_1", "bulk_gt_table", "policy_partial", "single_column", "big_subid_in_index",
          "lossy_completed", "lossy_timeout", "twelve_rows", "decimal_prefix_sibling"]
shrink_lists = [("cells",), ("neighbours",), ("faults", "explicit")]
POLICIES = ["full", "fewer", "partial", "stop_eom"]
VARIANTS = ["table", "bulktable", "pytable", "pybulktable"]


def total(tier: str) -> int:
    return 3000 if tier == "quick" else 100000


def _gen_index(rng: Any, arity: int) -> tuple:
    if arity == 4 and rng.random() < 0.5:
        return tuple(rng.randrange(0, 256) for _ in range(4))  # IP-address-like
    return tuple(rng.choice(gen.BIG_ARCS) if rng.random() < 0.12 else rng.randrange(0, 20) for _ in range(arity))


def plan_for(tier: str, seed: int, i: int) -> dict:
    rng = rng_for(seed, ID, tier, i)
    base = (1, 3, 6, 1) + rng.choice([(2, 1, 2), (4, 1, 9, 9), (2, 1, 31, 1), (6, 3, 16, 1)])
    a = rng.randrange(2, 9)
    table = base + (a,)
    entry = table + (1,)
    ncols = rng.choice([1, 2, 3, 3, 4, 5, 8])
    cols = sorted(rng.sample(list(range(1, 12)) + [22, 127, 128, 300], ncols))
    nrows = rng.choice([0, 1, 1, 2, 3, 5, 8, 12])
    arity = rng.choice([1, 1, 2, 3, 4])
    mixed = rng.random() < 0.15
    idx = set()
    for _ in range(nrows):
        idx.add(_gen_index(rng, rng.randrange(1, 5) if mixed else arity))
    rows = sorted(idx)
    density = rng.choice([1.0, 1.0, 0.8, 0.5])
    kinds = ["int", "str", "c32", "g32", "tt", "oid", "ip", "c64", "opaque"]
    cells = []
    for c in cols:
        kind = rng.choice(kinds)
        for r in rows:
            if rng.random() <= density:
                cells.append((entry + (c,) + r, gen.gen_value(rng, kind=kind, max_str=24)))
    neighbours = []
    if rng.random() < 0.7:
        neighbours.append((base + (a - 1, 0), ("int", 41)))                 # scalar directly before
    if rng.random() < 0.3:
        neighbours.append((base + (a - 1, 1, 1, 7), ("str", b"prev-table")))  # cell of a table before
    ends_view = rng.random() < 0.3
    if not ends_view:
        if rng.random() < 0.5:                                              # adjacent second table, same shape
            for c in cols[:2]:
                for r in (rows[:2] or [(1,)]):
                    neighbours.append((base + (a + 1, 1, c) + r, ("str", b"other-table")))
        if rng.random() < 0.7 or not neighbours:
            neighbours.append((base + (a + 2, 0), ("int", 43)))             # scalar after
        if rng.random() < 0.3:
            neighbours.append(((1, 3, 7, 1, 0), ("int", 9)))
        if rng.random() < 0.35:
            # a sibling whose sub-identifier has the table's as a decimal prefix (table ...9.2, object ...9.20.x):
            # textually "inside" the table, numerically outside
            sib = int(str(a) + rng.choice(["0", "5", "00"]))
            neighbours.append((base + (sib, 1, cols[0]) + (rows[0] if rows else (1,)), ("str", b"decimal-prefix-sibling")))
            neighbours.append((base + (sib, 0), ("int", 44)))
    n_cells = len(cells)
    r = rng.random()
    if r < 0.25:
        bulk = rng.choice([1, 2])
    elif r < 0.5:
        bulk = max(1, len(rows) + rng.choice([-1, 0, 1]))
    elif r < 0.65:
        bulk = n_cells + rng.randrange(1, 5)
    else:
        bulk = rng.randrange(1, 41)
    lossy = rng.random() < 0.15
    return {
        "prop": ID, "proto": gen_proto(rng), "table": table, "cells": sorted(cells), "neighbours": sorted(neighbours),
        "bulk": bulk, "policies": rng.sample(POLICIES, rng.randrange(1, 5)), "polseed": rng.getrandbits(40),
        "variants": list(VARIANTS), "faults": gen.gen_faults(rng, lossy), "lossy": lossy,
        "clock": gen.gen_clock(rng), "timeout": 2, "retries": rng.choice([2, 3, 5]) if lossy else 1,
    }


def valid(plan: dict) -> bool:
    return plan.get("bulk", 1) >= 1 and bool(plan.get("variants"))


def simplify(plan: dict):
    if plan["proto"]["version"] == "v3":
        p = dict(plan); p["proto"] = {"version": "v2c", "community": "public"}; yield p
    if len(plan["variants"]) > 1:
        for v in plan["variants"]:
            p = dict(plan); p["variants"] = [v]; yield p
    if plan["policies"] != ["full"]:
        p = dict(plan); p["policies"] = ["full"]; yield p
    for b in (1, 2, plan["bulk"] // 2, plan["bulk"] - 1):
        if 1 <= b < plan["bulk"]:
            p = dict(plan); p["bulk"] = b; yield p
    if any(v != ("int", 1) for _, v in plan["cells"]):
        p = dict(plan); p["cells"] = [(o, ("int", 1)) for o, _ in plan["cells"]]; yield p


def _norm(plan: dict) -> dict:
    plan = dict(plan)
    fix = lambda items: [(tuple(o), tuple(v) if isinstance(v, list) else v) for o, v in items]  # noqa: E731
    plan["cells"] = fix(plan["cells"])
    plan["neighbours"] = fix(plan["neighbours"])
    plan["table"] = tuple(plan["table"])
    return plan


def execute(plan: dict) -> dict:
    plan = _norm(plan)
    table = plan["table"]
    entry = table + (1,)
    mib_items = sorted(plan["cells"] + plan["neighbours"])
    bulk = plan["bulk"]
    w = World(faults=plan["faults"], clock=plan.get("clock"))
    agent = w.add_agent(agent_for(plan["proto"], dict(mib_items)))
    used: Dict[str, int] = {}

    def policy(req: dict) -> tuple:
        pol = plan["policies"][keyed(plan["polseed"], "pol", req["n"]) % len(plan["policies"])]
        used[pol] = used.get(pol, 0) + 1
        return (pol, 1 + keyed(plan["polseed"], "k", req["n"]) % max(1, bulk))
    agent.bulk_policy = policy
    client = w.client(plan["proto"], timeout=plan["timeout"], retries=plan["retries"])
    py = PyWrapper(client)
    results: Dict[str, Any] = {}

    async def one(v: str) -> Any:
        if v == "table":
            return scen.norm_table(await client.table(OID(entry)))
        if v == "bulktable":
            return scen.norm_table(await client.bulktable(OID(table), bulk_size=bulk))
        if v == "pytable":
            return scen.norm_table(await py.table(S.oid_str(entry)))
        return scen.norm_table(await py.bulktable(S.oid_str(table), bulk_size=bulk))

    async def main() -> None:
        for v in plan["variants"]:
            try:
                results[v] = ("ok", await one(v))
            except Exception as e:  # noqa: BLE001
                results[v] = ("exc", type(e).__name__, str(e)[:160])

    w.run(main())
    w.settle()
    model_raw = scen.table_model(mib_items, entry)
    model_py = sorted(((idx, sorted((k, v if k == "0" else scen.pythonize_ref(v)) for k, v in cells))
                       for idx, cells in model_raw), key=lambda r: (str(r[0]), repr(r[1])))
    violation = None

    def fail(clause: str, d: str) -> None:
        nonlocal violation
        if violation is None:
            violation = {"clause": clause, "detail": d}

    lossy = bool(plan.get("lossy"))
    n_ok = n_timeout = 0
    for v in plan["variants"]:
        res = results.get(v)
        if res is None:
            fail("no-result", "%s produced nothing" % v)
            continue
        if res[0] == "exc":
            if lossy and res[1] == "Timeout":
                n_timeout += 1
                continue
            fail("raised:" + res[1], "%s raised %s: %s" % (v, res[1], res[2]))
            continue
        n_ok += 1
        got = res[1]
        want = model_py if v.startswith("py") else model_raw
        if got == want:
            continue
        gi = [r[0] for r in got]
        wi = [r[0] for r in want]
        if len(gi) != len(set(gi)):
            fail("row-per-index", "%s: index appears in more than one row: %s" % (v, sorted(gi)))
        elif sorted(map(str, gi)) != sorted(map(str, wi)):
            fail("rows", "%s: row indices %s, the agent's table has %s" % (v, gi[:12], wi[:12]))
        else:
            for g, x in zip(got, want):
                if g != x:
                    fail("cells", "%s: row %s is %r, the agent holds %r" % (v, g[0], g[1][:6], x[1][:6]))
                    break
    if violation is None and w.net.open_sockets():
        fail("socket-left-open", "sockets %s" % w.net.open_sockets())
    cells = plan["cells"]
    idxs = sorted(set(o[len(entry) + 1:] for o, _ in cells))
    cols = sorted(set(o[len(entry)] for o, _ in cells))
    arities = set(len(x) for x in idxs)
    last = mib_items[-1][0] if mib_items else None
    probes = {
        "empty_table": int(not cells), "sparse": int(len(cells) < len(idxs) * len(cols)),
        "multi_component_index": int(any(a > 1 for a in arities)),
        "mixed_arity": int(len(arities) > 1),
        "adjacent_second_table": int(any(o[:len(table)] == table[:-1] + (table[-1] + 1,) for o, _ in plan["neighbours"])),
        "table_ends_view": int(bool(cells) and last is not None and last[:len(table)] == table),
        "bulk_1": int(bulk == 1), "bulk_gt_table": int(bulk > len(cells)),
        "policy_partial": int(used.get("partial", 0) > 0), "single_column": int(len(cols) == 1),
        "big_subid_in_index": int(any(x >= 2**21 for ix in idxs for x in ix)),
        "lossy_completed": int(lossy and n_ok == len(plan["variants"])), "lossy_timeout": int(n_timeout > 0),
        "twelve_rows": int(len(idxs) >= 10),
        "decimal_prefix_sibling": int(any(len(o) > len(table) and o[:len(table) - 1] == table[:-1] and o[len(table) - 1] != table[-1]
                                          and str(o[len(table) - 1]).startswith(str(table[-1])) for o, _ in plan["neighbours"])),
    }
    counters = dict(w.net.counters)
    for k, v in probes.items():
        counters["probe_" + k] = v
    level = plan["proto"].get("level", "") if plan["proto"]["version"] == "v3" else ""
    shape = repr((plan["proto"]["version"], level, len(cols), len(idxs), sorted(arities), len(cells), bulk, sorted(used),
                  sorted(set(f[2] for f in w.net.fired)), [results[v][0] for v in plan["variants"] if v in results]))
    out = {
        "violation": violation, "digest": w.net.digest(), "fired": list(w.net.fired), "triggers": [],
        "counters": counters, "shape": shape, "nontrivial": bool(idxs) and n_ok >= min(2, len(plan["variants"])),
        "sim_s": w.loop.time(), "exchanges": agent.exchanges,
        "summary": "%s cols=%d rows=%d cells=%d bulk=%d -> %s" % (
            plan["proto"]["version"], len(cols), len(idxs), len(cells), bulk,
            [(v, results[v][0] if results[v][0] == "ok" else results[v][1]) for v in plan["variants"] if v in results]),
    }
    w.close()
    return out


def describe(plan: dict) -> str:
    plan = _norm(plan)
    return "table=%s bulk=%d policies=%s variants=%s proto=%s\ncells=%s\nneighbours=%s\nfaults=%s" % (
        S.oid_str(plan["table"]), plan["bulk"], plan["policies"], plan["variants"],
        {k: v for k, v in plan["proto"].items() if "pass" not in k},
        [S.oid_str(o) for o, _ in plan["cells"]], [S.oid_str(o) for o, _ in plan["neighbours"]],
        plan["faults"].get("explicit") or plan["faults"].get("rates"))
