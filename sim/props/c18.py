"""C18 - temporary reconfiguration applies inside its block and is undone exactly."""
from __future__ import annotations

import hashlib
from typing import Any, Dict, List, Optional, Tuple

from .. import refsnmp as S
from ..agent import RefAgent
from ..runner import rng_for
from ..world import OID, PASSWORDS, World, agent_user, collect, make_credentials, oid_t, to_ref

ID = "C18"
LEVEL = "exploration"
RULE = ("Seeded histories on one client: a properly nested tree (depth <= 4, 4-30 steps) of configure(k=v), "
        "`with client.reconfigure(k=v, ...)` blocks left normally, by an exception raised in the block, by a BaseException (what task "
        "cancellation or a deadline raises), or by a failing request propagating out of it, requests (get, multiget, getnext, walk; some to a missing object), requests into a "
        "network partition (everything dropped), and unknown setting names for both calls; settings timeout, retries, "
        "credentials of the same family (other community / other user, other level) and of another family (V1, V2C, V3), "
        "context (name, engine id). One reference agent serves v1, v2c and v3 with every community/user of the plan. "
        "Model: a stack of snapshots {timeout, retries, credentials, context}. Oracle after EVERY step: client.config "
        "equals the model; per request the recording sender seam saw exactly the model's timeout and retries on every call "
        "(discovery included), the datagram decoded by the independent decoder speaks the version of the model's credential "
        "family with its community / user / level and context, and the result is the agent's value; an unknown setting "
        "raises and changes nothing; into a partition the request fails with Timeout after exactly `retries` transmissions "
        "and retries x timeout virtual seconds. Non-trivial: >= 1 block and >= 2 requests; distinct = distinct (sequence of "
        "step classes with nesting, families involved, outcomes).")
ASSUMPTIONS = [
    "configure() inside a reconfigure block edits the innermost snapshot and is undone with it when the block is left "
    "(the statement requires the client to behave exactly as before entering the block)",
    "a v3 request into a partition before discovery has succeeded times out in the discovery exchange, which uses the same "
    "timeout and retries; the transmission count and elapsed time are checked on whichever exchange was attempted",
]
PROBES = ["rediscovery_checked", "depth_4", "exit_exception", "exit_base_exception", "exit_failing_request", "family_switch_in_block", "v3_temporarily_v2c",
          "v2c_temporarily_v3", "same_family_cred_change", "context_change", "unknown_setting", "partition_timeout",
          "configure_inside_block", "request_after_exit", "v1_spoken", "timeout_override", "retries_override"]
shrink_lists = [("body",)]
BASE = (1, 3, 6, 1, 2, 1, 7)
MIB = {BASE + (1, 1, 1): ("str", b"value-a"), BASE + (1, 1, 2): ("int", 42), BASE + (1, 2, 1): ("c32", 7),
       BASE + (2, 0): ("g32", 9)}
MISSING = BASE + (5, 0)


class BlockExit(Exception):
    """Raised by the harness inside a reconfigure block (exceptional exit)."""


class BlockCancelled(BaseException):
    """Stands for task cancellation / a deadline firing inside the block: not an Exception subclass, like
    asyncio.CancelledError, KeyboardInterrupt or GeneratorExit."""


def total(tier: str) -> int:
    return 3000 if tier == "quick" else 120000


def _cred_pool(rng: Any) -> List[dict]:
    pool: List[dict] = [
        {"version": "v1", "community": "public"},      # same community as the v2c entry below: only the family differs
        {"version": "v2c", "community": "public"},
        {"version": "v2c", "community": "private"},
        {"version": "v3", "user": "noauth", "level": 0},
        {"version": "v3", "user": "alice", "level": 1, "auth": rng.choice(["md5", "sha1"]), "auth_pass": PASSWORDS[0]},
        {"version": "v3", "user": "bob", "level": 3, "auth": rng.choice(["md5", "sha1"]), "auth_pass": PASSWORDS[1],
         "priv": rng.choice(["verifstream", "verifstream2"]), "priv_pass": PASSWORDS[2]},
    ]
    # the same user at a lower security level than it is configured for (RFC 3414 allows any level up to the user's keys)
    bob = pool[-1]
    pool.append({k: v for k, v in bob.items() if not k.startswith("priv")} | {"level": 1})
    return pool


def _gen_settings(rng: Any, n_creds: int, allow_empty: bool = False) -> dict:
    kw: Dict[str, Any] = {}
    names = ["timeout", "retries", "credentials", "credentials", "context"]
    for name in rng.sample(names, rng.randrange(0 if allow_empty else 1, 4)):
        if name == "timeout":
            kw["timeout"] = rng.choice([1, 2, 3, 5, 7])
        elif name == "retries":
            kw["retries"] = rng.choice([1, 2, 3, 4, 5])
        elif name == "credentials":
            kw["credentials"] = rng.randrange(n_creds)
        else:
            kw["context"] = [rng.choice([b"", b"", b"\x80\x00\x1f\x88\x04ctx-engine"]), rng.choice([b"", b"ctx-a", b"vrf-17"])]
    return kw


def _gen_body(rng: Any, depth: int, budget: List[int], n_creds: int) -> List[dict]:
    body: List[dict] = []
    n = rng.randrange(1, 6)
    for _ in range(n):
        if budget[0] <= 0:
            break
        budget[0] -= 1
        r = rng.random()
        if r < 0.40:
            body.append({"do": "request", "op": rng.choice(["get", "get", "multiget", "getnext", "walk"]),
                         "missing": rng.random() < 0.08, "propagate": rng.random() < 0.5})
        elif r < 0.52:
            body.append({"do": "configure", "kw": _gen_settings(rng, n_creds)})
        elif r < 0.58:
            body.append({"do": "blackhole"})
        elif r < 0.64:
            body.append({"do": rng.choice(["bad-configure", "bad-block"]),
                         "kw": _gen_settings(rng, n_creds, allow_empty=True)})
        elif depth < 4:
            body.append({"do": "block", "kw": _gen_settings(rng, n_creds),
                         "body": _gen_body(rng, depth + 1, budget, n_creds),
                         "exit": rng.choice(["normal", "normal", "exception", "cancelled"])})
            if rng.random() < 0.7:
                body.append({"do": "request", "op": "get", "missing": False, "propagate": False})
        else:
            body.append({"do": "request", "op": "get", "missing": False, "propagate": False})
    return body


def plan_for(tier: str, seed: int, i: int) -> dict:
    rng = rng_for(seed, ID, tier, i)
    pool = _cred_pool(rng)
    budget = [rng.randrange(4, 31)]
    body: List[dict] = []
    while budget[0] > 0:
        body.extend(_gen_body(rng, 0, budget, len(pool)))
    body.append({"do": "request", "op": "get", "missing": False, "propagate": False})
    return {"prop": ID, "creds": pool, "initial": {"credentials": rng.randrange(len(pool)), "timeout": rng.choice([2, 4]),
                                                    "retries": rng.choice([1, 2, 3]),
                                                    "context": [b"", rng.choice([b"", b"init-ctx"])]},
            "body": body}


def valid(plan: dict) -> bool:
    return bool(plan["body"])


def simplify(plan: dict):
    # thin out nested bodies and flatten blocks
    def walk(body: List[dict], path: Tuple[int, ...]):
        for k, item in enumerate(body):
            if item["do"] == "block":
                inner = item["body"]
                for j in range(len(inner)):
                    yield path + (k,), "drop", j
                yield path + (k,), "flatten", None
                if item["exit"] != "normal":
                    yield path + (k,), "normal", None
                for key in list(item["kw"]):
                    yield path + (k,), "kw", key
                yield from walk(inner, path + (k,))
            elif item["do"] == "configure":
                for key in list(item["kw"]):
                    if len(item["kw"]) > 1:
                        yield path + (k,), "kw", key

    import copy
    for path, what, arg in list(walk(plan["body"], ())):
        p = copy.deepcopy(plan)
        body = p["body"]
        for idx in path[:-1]:
            body = body[idx]["body"]
        item = body[path[-1]]
        if what == "drop":
            del item["body"][arg]
        elif what == "flatten":
            body[path[-1]:path[-1] + 1] = item["body"]
        elif what == "normal":
            item["exit"] = "normal"
        elif what == "kw":
            del item["kw"][arg]
        yield p


def _kw_real(kw: dict, creds: List[dict]) -> dict:
    from puresnmp.api.raw import Context
    out: Dict[str, Any] = {}
    for k, v in kw.items():
        if k == "credentials":
            out[k] = make_credentials(creds[v])
        elif k == "context":
            out[k] = Context(bytes(v[0]), bytes(v[1]))
        else:
            out[k] = v
    return out


_MPM_IDS = [0]


def _apply(model: dict, kw: dict, creds: Optional[List[dict]] = None) -> dict:
    new = dict(model)
    for k, v in kw.items():
        new[k] = [bytes(v[0]), bytes(v[1])] if k == "context" else v
    if creds is not None and "credentials" in kw and \
            creds[kw["credentials"]]["version"] != creds[model["credentials"]]["version"]:
        # another credential family: another message-processing model (what it has learnt - the discovered engine - is
        # kept with the snapshot it belongs to and comes back when that snapshot is restored)
        _MPM_IDS[0] += 1
        new["mpm"] = _MPM_IDS[0]
    return new


def execute(plan: dict) -> dict:
    creds = plan["creds"]
    w = World()
    comm = {0: set(), 1: set()}
    users = []
    for c in creds:
        if c["version"] == "v1":
            comm[0].add(c["community"].encode())
        elif c["version"] == "v2c":
            comm[1].add(c["community"].encode())
        else:
            have = [u for u in users if u.name == c["user"].encode()]
            if not have:
                users.append(agent_user(c))
            elif agent_user(c).level > have[0].level:
                users[users.index(have[0])] = agent_user(c)
    agent = w.add_agent(RefAgent(dict(MIB), communities=comm, users=users))
    agent.require_exact_level = False      # a user may be addressed at any level its keys allow
    init = plan["initial"]
    from puresnmp.api.raw import Context
    client = w.client(creds[init["credentials"]], timeout=init["timeout"], retries=init["retries"],
                      engine_id=bytes(init["context"][0]), context_name=bytes(init["context"][1]))
    rec = client._verif_recorder
    stack: List[dict] = [{"timeout": init["timeout"], "retries": init["retries"], "credentials": init["credentials"],
                          "context": [bytes(init["context"][0]), bytes(init["context"][1])], "mpm": 0}]
    _MPM_IDS[0] = 0
    discovered: set = set()
    violation = None
    probes = {k: 0 for k in PROBES}
    classes: List[str] = []
    n_requests = 0

    def fail(clause: str, d: str) -> None:
        nonlocal violation
        if violation is None:
            violation = {"clause": clause, "detail": "%s | after steps %s" % (d, " ".join(classes[-12:]))}

    def check_config(where: str) -> None:
        m = stack[-1]
        cfg = client.config
        want_cred = make_credentials(creds[m["credentials"]])
        if cfg.timeout != m["timeout"] or cfg.retries != m["retries"]:
            fail("config", "%s: config timeout/retries %s/%s, model %s/%s" % (where, cfg.timeout, cfg.retries,
                                                                              m["timeout"], m["retries"]))
        if type(cfg.credentials) is not type(want_cred) or _cred_key(cfg.credentials) != _cred_key(want_cred):
            fail("config", "%s: config credentials %r, model %r" % (where, cfg.credentials, want_cred))
        if (cfg.context.engine_id, cfg.context.name) != (m["context"][0], m["context"][1]):
            fail("config", "%s: config context %r, model %r" % (where, cfg.context, m["context"]))

    async def request(item: dict) -> None:
        nonlocal n_requests
        n_requests += 1
        m = stack[-1]
        cred = creds[m["credentials"]]
        n_calls, n_reqs = len(rec.calls), len(agent.requests)
        op = item["op"]
        target = MISSING if item.get("missing") else BASE + (1, 1, 1)
        exc: Optional[BaseException] = None
        res: Any = None
        try:
            if op == "get":
                res = to_ref(await client.get(OID(target)))
            elif op == "multiget":
                res = [to_ref(v) for v in await client.multiget([OID(target), OID(BASE + (1, 1, 2))])]
            elif op == "getnext":
                vb = await client.getnext(OID(BASE + (1, 1, 1)))
                res = (oid_t(vb.oid), to_ref(vb.value))
            else:
                res = [(oid_t(vb.oid), to_ref(vb.value)) for vb in await collect(client.walk(OID(BASE + (1, 1))))]
        except Exception as e:  # noqa: BLE001
            exc = e
        # what reached the transport
        for call in rec.calls[n_calls:]:
            if call["timeout"] != m["timeout"] or call["retries"] != m["retries"]:
                fail("transport-settings", "sender called with timeout=%s retries=%s, model has %s/%s" % (
                    call["timeout"], call["retries"], m["timeout"], m["retries"]))
        # what reached the message layer
        new = agent.requests[n_reqs:]
        data = [r for r in new if not r.get("discovery")]
        if not data:
            fail("no-request", "request produced no datagram")
        n_disco = sum(1 for r in new if r.get("discovery"))
        if cred["version"] == "v3":
            if m["mpm"] in discovered and n_disco:
                probes["rediscovery_checked"] = 1
                fail("rediscovery", "%d discovery probe(s) sent although this configuration had discovered the engine before "
                     "(leaving a block / an unrelated setting must not forget it)" % n_disco)
            elif m["mpm"] in discovered:
                probes["rediscovery_checked"] = 1
            if n_disco and data:
                discovered.add(m["mpm"])
        for r in data:
            want_version = {"v1": 0, "v2c": 1, "v3": 3}[cred["version"]]
            if r["version"] != want_version:
                fail("protocol-version", "datagram speaks version %s, model credentials are %s" % (r["version"], cred["version"]))
                continue
            if want_version in (0, 1):
                if r.get("msg", {}).get("community") != cred["community"].encode():
                    fail("credentials", "community %r on the wire, model %r" % (r.get("msg", {}).get("community"), cred["community"]))
            else:
                sec = r.get("sec") or {}
                if sec.get("user") != cred["user"].encode() or r.get("level") != cred["level"]:
                    fail("credentials", "user %r level %r on the wire, model %r/%r" % (
                        sec.get("user"), r.get("level"), cred["user"], cred["level"]))
                sc = r.get("scoped")
                if sc is not None:
                    want_engine = m["context"][0] or agent.engine_id
                    if sc["ctx_name"] != m["context"][1] or sc["ctx_engine"] != want_engine:
                        fail("context", "context %r/%r on the wire, model %r/%r" % (
                            sc["ctx_engine"], sc["ctx_name"], want_engine, m["context"][1]))
            if r["verdict"] != "ok":
                fail("rejected", "agent verdict %s for a request made with the model's credentials" % r["verdict"])
        # result
        if item.get("missing") and op in ("get",):
            if type(exc).__name__ != "NoSuchOID":
                fail("result", "get of a missing object: %r / %r" % (res, exc))
        elif item.get("missing") and op == "multiget":
            if exc is not None or (cred["version"] != "v1" and res[1] != MIB[BASE + (1, 1, 2)]):
                if not (cred["version"] == "v1" and type(exc).__name__ == "NoSuchOID"):
                    fail("result", "multiget with a missing object: %r / %r" % (res, exc))
        elif exc is not None:
            fail("result", "%s raised %s: %s" % (op, type(exc).__name__, exc))
        else:
            want: Any
            if op == "get":
                want = MIB[target]
            elif op == "multiget":
                want = [MIB[target], MIB[BASE + (1, 1, 2)]]
            elif op == "getnext":
                want = (BASE + (1, 1, 2), MIB[BASE + (1, 1, 2)])
            else:
                want = [(BASE + (1, 1, 1), MIB[BASE + (1, 1, 1)]), (BASE + (1, 1, 2), MIB[BASE + (1, 1, 2)])]
            if res != want:
                fail("result", "%s returned %r, agent holds %r" % (op, res, want))
        if cred["version"] == "v1":
            probes["v1_spoken"] = 1
        if exc is not None and item.get("propagate") and item.get("missing"):
            raise exc

    async def blackhole() -> None:
        m = stack[-1]
        n_calls = len(rec.calls)
        sent0 = w.net.counters.get("dgram_c2a", 0)
        t0 = w.loop.time()
        w.net.partition_until = float("inf")
        exc = None
        try:
            await client.get(OID(BASE + (1, 1, 1)))
        except Exception as e:  # noqa: BLE001
            exc = e
        finally:
            w.net.partition_until = -1.0
        sent = w.net.counters.get("dgram_c2a", 0) - sent0
        dt = w.loop.time() - t0
        if type(exc).__name__ != "Timeout":
            fail("partition", "request into a partition ended with %r" % (exc,))
        elif sent != m["retries"] or dt != m["retries"] * m["timeout"]:
            fail("partition", "%d transmissions in %.3f s, model retries=%d timeout=%d" % (sent, dt, m["retries"], m["timeout"]))
        for call in rec.calls[n_calls:]:
            if call["timeout"] != m["timeout"] or call["retries"] != m["retries"]:
                fail("transport-settings", "sender called with timeout=%s retries=%s, model has %s/%s" % (
                    call["timeout"], call["retries"], m["timeout"], m["retries"]))
        probes["partition_timeout"] = 1

    try:
        w.run(_drive(plan, client, creds, stack, probes, classes, request, blackhole, check_config, fail,
                     lambda: violation))
    except Exception:  # noqa: BLE001
        if violation is None:
            raise
    w.settle()
    if violation is None and w.net.open_sockets():
        fail("socket-left-open", "sockets %s" % w.net.open_sockets())
    counters = dict(w.net.counters)
    counters["requests"] = n_requests
    for k, v in probes.items():
        counters["probe_" + k] = v
    shape = hashlib.sha256(" ".join(classes).encode()).hexdigest()[:16]
    out = {
        "violation": violation, "digest": w.net.digest(), "triggers": [], "counters": counters, "shape": shape,
        "nontrivial": any(c.startswith("enter") for c in classes) and classes.count("req") >= 2,
        "sim_s": w.loop.time(), "exchanges": agent.exchanges,
        "summary": "%d steps: %s" % (len(classes), " ".join(classes)[:300]),
    }
    w.close()
    return out


def _cred_key(c: Any) -> tuple:
    if hasattr(c, "community"):
        return (type(c).__name__, c.community)
    auth = getattr(c, "auth", None)
    priv = getattr(c, "priv", None)
    return (type(c).__name__, c.username, (auth.key, auth.method) if auth else None,
            (priv.key, priv.method) if priv else None)


def _note_switch(model: dict, kw: dict, creds: List[dict], probes: dict, in_block: bool) -> None:
    if "credentials" in kw:
        old, new = creds[model["credentials"]], creds[kw["credentials"]]
        fam = lambda c: c["version"]  # noqa: E731
        if fam(old) != fam(new):
            if in_block:
                probes["family_switch_in_block"] = 1
                if fam(old) == "v3" and fam(new) == "v2c":
                    probes["v3_temporarily_v2c"] = 1
                if fam(old) == "v2c" and fam(new) == "v3":
                    probes["v2c_temporarily_v3"] = 1
        elif old != new:
            probes["same_family_cred_change"] = 1
    if "context" in kw:
        probes["context_change"] = 1
    if "timeout" in kw:
        probes["timeout_override"] = 1
    if "retries" in kw:
        probes["retries_override"] = 1


async def _drive(plan: dict, client: Any, creds: List[dict], stack: List[dict], probes: dict, classes: List[str],
                 request: Any, blackhole: Any, check_config: Any, fail: Any, violated: Any) -> None:
    """Execute the step tree with real `with client.reconfigure(...)` statements."""

    async def run_body(body: List[dict], depth: int) -> None:
        for item in body:
            if violated() is not None:
                return
            do = item["do"]
            if do == "request":
                if classes and classes[-1].startswith("exit"):
                    probes["request_after_exit"] = 1
                classes.append("req")
                await request(item)                 # may raise NoSuchOID (propagate=True, missing object)
            elif do == "blackhole":
                classes.append("hole")
                await blackhole()
            elif do == "configure":
                classes.append("cfg(%s)" % ",".join(sorted(item["kw"])))
                client.configure(**_kw_real(item["kw"], creds))
                _note_switch(stack[-1], item["kw"], creds, probes, in_block=depth > 0)
                stack[-1] = _apply(stack[-1], item["kw"], creds)
                if depth > 0:
                    probes["configure_inside_block"] = 1
            elif do == "bad-configure":
                classes.append("badcfg")
                kw = dict(_kw_real(item["kw"], creds), no_such_setting=1)
                try:
                    client.configure(**kw)
                except (TypeError, ValueError, AttributeError, KeyError):
                    pass
                else:
                    fail("unknown-setting", "configure(no_such_setting=1) was accepted")
                probes["unknown_setting"] = 1
            elif do == "bad-block":
                classes.append("badblk")
                kw = dict(_kw_real(item["kw"], creds), no_such_setting=1)
                entered = False
                try:
                    with client.reconfigure(**kw):
                        entered = True
                except (TypeError, ValueError, AttributeError, KeyError):
                    pass
                if entered:
                    fail("unknown-setting", "reconfigure(no_such_setting=1) was accepted")
                probes["unknown_setting"] = 1
            elif do == "block":
                classes.append("enter%d(%s)" % (depth + 1, ",".join(sorted(item["kw"]))))
                if depth + 1 >= 4:
                    probes["depth_4"] = 1
                base_len = len(stack)
                how = "normal"
                pending: Any = None
                try:
                    with client.reconfigure(**_kw_real(item["kw"], creds)):
                        _note_switch(stack[-1], item["kw"], creds, probes, in_block=True)
                        stack.append(_apply(stack[-1], item["kw"], creds))
                        check_config("inside block")
                        await run_body(item["body"], depth + 1)
                        if item["exit"] == "exception" and violated() is None:
                            raise BlockExit()
                        if item["exit"] == "cancelled" and violated() is None:
                            raise BlockCancelled()
                except BlockExit:
                    how = "exception"
                    probes["exit_exception"] = 1
                except BlockCancelled:
                    how = "cancelled"
                    probes["exit_base_exception"] = 1
                except Exception as e:  # noqa: BLE001
                    if type(e).__name__ != "NoSuchOID":
                        raise
                    how = "failing-request"
                    probes["exit_failing_request"] = 1
                    pending = e
                del stack[base_len:]
                classes.append("exit%d-%s" % (depth + 1, how))
                check_config("after " + classes[-1])
                if pending is not None and depth > 0:
                    raise pending       # keeps travelling up, as it would through nested with-statements
            check_config("after " + classes[-1])

    try:
        await run_body(plan["body"], 0)
    except Exception as e:  # noqa: BLE001
        if type(e).__name__ != "NoSuchOID":
            raise


def describe(plan: dict) -> str:
    def fmt(body: List[dict], ind: int) -> List[str]:
        out = []
        for item in body:
            if item["do"] == "block":
                out.append(" " * ind + "with reconfigure(%s):  # exit=%s" % (item["kw"], item["exit"]))
                out.extend(fmt(item["body"], ind + 2))
            else:
                out.append(" " * ind + repr({k: v for k, v in item.items()}))
        return out
    return "initial=%s\ncreds=%s\n%s" % (plan["initial"], [{k: v for k, v in c.items() if "pass" not in k}
                                                            for c in plan["creds"]], "\n".join(fmt(plan["body"], 0)))
