"""C20 - no datagram, however malformed, can hang the client or exhaust memory."""
from __future__ import annotations

import asyncio
import hashlib
import tracemalloc
from typing import Any, Dict, List, Optional, Tuple

from .. import refber as B
from .. import refsnmp as S
from .. import scen
from ..loop import EventCapExceeded, SimDeadlock, keyed
from ..runner import rng_for
from ..world import X690_WATCH, Meter, WorkBudgetExceeded, World, agent_for, install_x690_watch, oid_t, to_ref

ID = "C20"
LEVEL = "fault_enumeration"
CHUNK = 96
DET_SAMPLE = 3          # plans re-executed in the parent for the determinism spot check (each is a batch of 96 cases)
A_EVENTS = {"multigetnext": 400_000, "get": 400_000, "bulkget": 400_000, "walk": 1_200_000, "bulkwalk": 1_200_000, "trap": 250_000}
B_EVENTS = 200            # counted events per datagram octet
C_BYTES = 16 << 20        # traced-memory allowance per exchange
D_BYTES = 64              # traced bytes per datagram octet
RULE = ("Base messages are produced in simulation by fixed scenarios: v1/v2c responses to get, bulkget, a mid-walk GETNEXT and a mid-walk GETBULK (one datagram mutated, or every datagram from that one on), "
        "v3 discovery replies and responses at noAuthNoPriv, authNoPriv(MD5) and authPriv(SHA-1), an unauthenticated and an "
        "authenticated USM Report, and a v2c trap to a registered listener. For each base message the `corrupt`/`rewrite` "
        "network fault delivers, inside an otherwise normal exchange: EVERY single-bit flip, EVERY truncation, at EVERY TLV "
        "header position (tags and length octets, nested security parameters included, located by the independent decoder) "
        "every one of the 256 octet values (thorough; a 16-value dictionary {00 01 7F 80 81 82 83 84 88 FF 04 30 A2 02 43 44} in "
        "quick), seeded pairs and triples of header positions with dictionary values, indefinite lengths with end-of-contents, "
        "seeded random strings of 0-2000 octets and some of 65507, constructed values nested up to the UDP maximum, and "
        "WELL-FORMED but unusually large variants of the message (up to 6 500 tiny bindings, one 60 000-octet string, error "
        "responses with thousands of bindings) and degenerate ones (no binding at all, a single binding), and v3 messages whose engine boots/time are well-formed INTEGERs of 3-200 "
        "octets (2^80 and beyond). 'After "
        "authentication' = the agent applies the mutation to the scoped PDU before encrypting and signing. Oracle: while the "
        "client processes the exchange every Python function entry, call and loop jump outside the harness is counted "
        "(sys.monitoring) and must stay below A + 200 x len(datagram) events (A = 400k for single exchanges, 1.2M for walks, "
        ">= 20 x the measured well-formed cost); peak traced memory (tracemalloc, every 4th plan) below 16 MiB + 64 x len; "
        "the outcome is a result or an exception (RecursionError included); afterwards, with the fault gone, the same "
        "client's next request (the listener's next trap) behaves exactly as in the unmutated run, or as in the run in which "
        "the targeted datagram is lost (a refused datagram conveys nothing - e.g. a corrupted notInTimeWindow Report cannot "
        "resynchronise the clock). Long-lived scenarios: one client (one listener) performs 60 + 240 exchanges one simulated "
        "second apart with a seeded third of the incoming datagrams corrupted; the memory still traced after the last 240 may "
        "exceed the level after the warm-up by at most 24 KiB (nothing may be retained per datagram). Non-trivial: the mutated "
        "datagram differs from the original and reached the client; distinct = distinct (scenario, mutation).")
ASSUMPTIONS = [
    "time is decided as counted work (function entries, calls, loop jumps), not seconds; a hang inside one C call would only "
    "be seen by the wall-clock guard of the worker pool (HARNESS-ERROR, never exit 0)",
    "a mutated discovery reply that the client accepts (it cannot be authenticated) may leave wrong engine data in that "
    "client: there the follow-up request is judged only if the client raised for that datagram (no further request was "
    "sent in the same call), as the statement says",
]
PROBES = ["long_lived_retention_measured", "every_later_datagram_mutated", "flip", "trunc", "hsub", "hsub_multi", "eoc", "random", "random_max_size", "nest", "post_auth", "discovery_reply",
          "report", "trap", "raised", "accepted_mutated", "recursion_error", "indefinite_no_eoc_reached", "timeout_path",
          "memory_measured", "big_wellformed", "empty_or_single_binding_list", "big_over_50k_octets", "huge_engine_boots_or_time"]
shrink_lists = [("mutations",)]
#: long-lived scenarios: one client (one listener) used for LEAK_WARM + LEAK_POLLS exchanges one simulated second apart,
#: a seeded third of the datagrams corrupted; memory still traced after the last LEAK_POLLS exchanges may exceed what was
#: traced after the warm-up by at most LEAK_ALLOW octets (the harness drops its own per-exchange records in between)
LEAK_SCENARIOS = ["v2c-get", "v1-get", "v2c-walk-mid", "v3-noauth-get", "v3-auth-get", "v3-priv-bulkget", "trap-v2c"]
LEAK_WARM, LEAK_POLLS, LEAK_ALLOW = 60, 240, 24 << 10
DICT = [0x00, 0x01, 0x7F, 0x80, 0x81, 0x82, 0x83, 0x84, 0x88, 0xFF, 0x04, 0x30, 0xA2, 0x02, 0x43, 0x44]

MIB = {(1, 3, 6, 1, 2, 1, 1, 1, 0): ("str", b"descr" * 4), (1, 3, 6, 1, 2, 1, 1, 2, 0): ("oid", (1, 3, 6, 1, 4, 1, 8072)),
       (1, 3, 6, 1, 2, 1, 1, 3, 0): ("tt", 12345), (1, 3, 6, 1, 2, 1, 2, 1, 0): ("int", 3)}
GET = {"op": "get", "oid": (1, 3, 6, 1, 2, 1, 1, 1, 0)}
BULK = {"op": "bulkget", "scalars": [(1, 3, 6, 1, 2, 1, 1, 1)], "repeaters": [(1, 3, 6, 1, 2, 1, 1, 2)], "maxrep": 3}
WALK = {"op": "walk", "root": (1, 3, 6, 1, 2, 1, 1)}
#: a request for 400 OIDs answered by 400 bindings (about 14 kB): work must stay linear in the size of the answer
WIDE = {"op": "multigetnext", "oids": [(1, 3, 6, 1, 2, 1, 1, 0, j) for j in range(1, 401)]}
BULKWALK = {"op": "bulkwalk", "roots": [(1, 3, 6, 1, 2, 1, 1), (1, 3, 6, 1, 2, 1, 2)], "bulk": 2}
V2C = {"version": "v2c", "community": "public"}
V1 = {"version": "v1", "community": "public"}
V3N = {"version": "v3", "user": "u", "level": 0}
V3A = {"version": "v3", "user": "alice", "level": 1, "auth": "md5", "auth_pass": b"maplesyrup"}
V3P = {"version": "v3", "user": "bob", "level": 3, "auth": "sha1", "auth_pass": b"maplesyrup", "priv": "verifstream",
       "priv_pass": b"privpass-1"}
V3A_WRONGUSER = dict(V3A, user="mallory")

#: name -> (client credentials, agent credentials, operation, index of the targeted agent->client datagram, where, special)
SCENARIOS: Dict[str, tuple] = {
    "v2c-get": (V2C, V2C, GET, 0, "pre", None),
    "v1-get": (V1, V1, GET, 0, "pre", None),
    "v2c-bulkget": (V2C, V2C, BULK, 0, "pre", None),
    "v2c-walk-mid": (V2C, V2C, WALK, 1, "pre", None),
    "v2c-bulkwalk-mid": (V2C, V2C, BULKWALK, 1, "pre", None),
    # "sticky": EVERY datagram from the k-th on is mutated in the same way while the operation runs (an agent that is
    # broken, not one damaged datagram): the operation must still end
    "v2c-bulkwalk-rest": (V2C, V2C, BULKWALK, 1, "pre", "sticky"),
    "v2c-walk-rest": (V2C, V2C, WALK, 1, "pre", "sticky"),
    "v2c-getnext-400": (V2C, V2C, WIDE, 0, "pre", "wide"),
    "v3-noauth-disco": (V3N, V3N, GET, 0, "pre", None),
    "v3-noauth-get": (V3N, V3N, GET, 1, "pre", None),
    "v3-auth-get": (V3A, V3A, GET, 1, "pre", None),
    "v3-auth-get-post": (V3A, V3A, GET, 1, "post", None),
    "v3-auth-disco": (V3A, V3A, GET, 0, "pre", None),
    "v3-priv-bulkget": (V3P, V3P, BULK, 1, "pre", None),
    "v3-priv-bulkget-post": (V3P, V3P, BULK, 1, "post", None),
    "v3-priv-walk-post": (V3P, V3P, WALK, 2, "post", None),
    "v3-report-unknown-user": (V3A_WRONGUSER, V3A, GET, 1, "pre", None),
    "v3-report-notintime": (V3A, V3A, GET, 1, "pre", "reboot-after-discovery"),
    "trap-v2c": (V2C, V2C, None, 0, "pre", "trap"),
}
QUICK_SCENARIOS = ["v2c-get", "v2c-bulkwalk-rest", "v3-auth-get", "v3-auth-get-post", "v3-noauth-disco", "v3-report-unknown-user", "trap-v2c"]
TRAP_VBS = [((1, 3, 6, 1, 2, 1, 1, 3, 0), ("tt", 4711)), ((1, 3, 6, 1, 6, 3, 1, 1, 4, 1, 0), ("oid", (1, 3, 6, 1, 4, 1, 8072, 2, 3, 0, 1))),
            ((1, 3, 6, 1, 4, 1, 8072, 2, 3, 2, 1), ("int", 123456)), ((1, 3, 6, 1, 4, 1, 8072, 2, 3, 2, 2), ("str", b"payload"))]
TRAP_LISTEN = ("10.0.0.1", 162)
TRAP_SRC = ("10.0.9.9", 40123)


# ---------------------------------------------------------------------------------------
# mutations

def header_positions(raw: bytes) -> List[int]:
    """Offsets of all identifier and length octets, including TLVs nested in OCTET STRINGs that hold BER."""
    out: List[int] = []

    def visit(buf: bytes, base: int) -> None:
        try:
            root = B.parse(buf)
        except B.BerError:
            return
        for n in B.all_nodes(root):
            out.extend(range(base + n.start, base + n.start + n.hdr))
            if n.children is None and n.tag == 0x04 and n.content[:1] == b"\x30":
                visit(n.content, base + n.end - len(n.content))
    visit(raw, 0)
    return sorted(set(out))


def nested(style: int, depth: int) -> bytes:
    if style == 0:      # indefinite-length sequences, no end-of-contents
        return b"\x30\x80" * depth
    if style == 1:      # indefinite-length sequences closed by end-of-contents octets
        return b"\x30\x80" * depth + b"\x00\x00" * depth
    if style == 2:      # definite long-form lengths, properly nested
        out = b""
        for _ in range(depth):
            out = b"\x30\x84" + len(out).to_bytes(4, "big") + out
        return out
    # a v2c message whose binding value nests constructed context tags
    inner = b""
    for _ in range(depth):
        inner = b"\xa2\x84" + len(inner).to_bytes(4, "big") + inner
    vb = B.enc_seq([B.enc_oid((1, 3, 6, 1, 2, 1, 1, 1, 0)), inner])
    pdu = B.tlv(0xA2, B.enc_int(1) + B.enc_int(0) + B.enc_int(0) + B.enc_seq([vb]))
    return B.enc_seq([B.enc_int(1), B.enc_str(b"public"), pdu])


def big_message(raw: bytes, style: int, n: int) -> bytes:
    """A WELL-FORMED but unusually large variant of the authentic message/scoped PDU: same header, request id and
    context, the binding list replaced.  style 0: n tiny bindings (OID of 2 octets, NULL); 1: one OCTET STRING of n octets;
    2: n bindings with 9-arc OIDs and integers; 3: error-status 5 with n tiny bindings."""
    def bindings() -> list:
        if style == 1:
            return [((1, 3, 6, 1, 2, 1, 1, 1, 0), ("str", b"x" * n))]
        if style == 2:
            return [((1, 3, 6, 1, 2, 1, 2, 2, 1, 1 + (j >> 7), j & 127), ("int", j)) for j in range(n)]
        return [((1, 3, 1 + (j >> 14) % 100, (j >> 7) & 127, j & 127), ("null", None)) for j in range(n)]

    def pdu_like(pdu: dict) -> dict:
        return S.mkpdu(pdu["tag"], pdu["rid"], bindings(), es=5 if style == 3 else 0, ei=1 if style == 3 else 0)
    try:
        msg = S.decode_message(raw)
    except B.BerError:
        try:
            sc = S.decode_scoped_bytes(raw)      # "post": the agent's plaintext scoped PDU
        except B.BerError:
            return raw
        return S.enc_scoped(sc["ctx_engine"], sc["ctx_name"], S.enc_pdu(pdu_like(sc["pdu"])))
    if msg["version"] in (0, 1):
        return S.enc_community_msg(msg["version"], msg["community"], S.enc_pdu(pdu_like(msg["pdu"])))
    if msg["scoped"] is None:
        return raw                               # encrypted on the wire: big payloads go through the "post" scenarios
    sc = msg["scoped"]
    scoped = S.enc_scoped(sc["ctx_engine"], sc["ctx_name"], S.enc_pdu(pdu_like(sc["pdu"])))
    return S.enc_v3_msg(msg["msg_id"], msg["max_size"], msg["flags"], 3, S.enc_usm_params(msg["sec"]), scoped)


def secint_message(raw: bytes, which: int, octets: int) -> bytes:
    """The authentic v3 message with msgAuthoritativeEngineBoots (which=0), ...Time (1) or both (2) replaced by a
    well-formed INTEGER of *octets* content octets (positive for even, negative for odd sizes): 5 octets is already
    beyond Integer32, 11 octets is 2^80.  Everything else is kept (so an unauthenticated message stays acceptable)."""
    try:
        msg = S.decode_message(raw)
    except B.BerError:
        return raw
    if msg["version"] != 3 or msg["sec"] is None:
        return raw
    lead = b"\x7f" if octets % 2 == 0 else b"\x80"
    huge = B.tlv(0x02, lead + b"\x5a" * (octets - 1))
    sec = msg["sec"]
    fields = [B.enc_str(sec["engine_id"]),
              huge if which in (0, 2) else B.enc_int(sec["boots"]),
              huge if which in (1, 2) else B.enc_int(sec["time"]),
              B.enc_str(sec["user"]), B.enc_str(sec["auth"]), B.enc_str(sec["priv"])]
    data = msg["scoped_raw"] if msg["scoped"] is not None else B.enc_str(msg["encrypted"])
    return S.enc_v3_msg(msg["msg_id"], msg["max_size"], msg["flags"], 3, B.enc_seq(fields), data)


def apply_mutation(raw: bytes, m: list) -> bytes:
    kind = m[0]
    if kind in ("none", "drop"):
        return raw
    if kind == "flip":
        if m[1] >= 8 * len(raw):
            return raw
        b = bytearray(raw)
        b[m[1] // 8] ^= 1 << (m[1] % 8)
        return bytes(b)
    if kind == "trunc":
        return raw[:m[1]]
    if kind in ("hsub", "eoc"):
        hp = header_positions(raw)
        b = bytearray(raw)
        for j in range(1, len(m) - 1, 2):
            if m[j] < len(hp):
                b[hp[m[j]]] = m[j + 1]
        if kind == "eoc":
            b.extend(b"\x00\x00" * m[-1])
        return bytes(b)
    if kind == "raw":
        return bytes(m[1])
    if kind == "rand":
        n = m[2]
        if n > 4096:    # large strings: a repeated seeded block (cheap to build, still arbitrary octets)
            block = bytes((keyed(m[1], "r", j) & 0xFF) for j in range(509))
            return (block * (n // 509 + 1))[:n]
        return bytes((keyed(m[1], "r", j) & 0xFF) for j in range(n))
    if kind == "nest":
        return nested(m[1], m[2])
    if kind == "big":
        return big_message(raw, m[1], m[2])
    if kind == "secint":
        return secint_message(raw, m[1], m[2])
    raise ValueError(kind)


# ---------------------------------------------------------------------------------------
# one case = one mutated exchange + one clean follow-up on the same client

class Env:
    """A world shared by the cases of one plan (fresh agent and client per case)."""

    def __init__(self, scenario: str, mem: bool) -> None:
        self.name = scenario
        self.ccred, self.acred, self.op, self.k, self.where, self.special = SCENARIOS[scenario]
        self.w = World(event_cap=3_000_000)
        self.mem = mem
        install_x690_watch()
        self.trap_got: List[Any] = []
        if self.special == "trap":
            from puresnmp.api.raw import register_trap_callback
            from puresnmp.credentials import V2C as V2Ccred

            async def cb(trap: Any) -> None:
                try:
                    self.trap_got.append([(oid_t(vb.oid), to_ref(vb.value)) for vb in trap.value.varbinds])
                except Exception as e:  # noqa: BLE001
                    self.trap_got.append("unreadable: %s" % type(e).__name__)
            register_trap_callback(cb, TRAP_LISTEN[0], TRAP_LISTEN[1], V2Ccred("public"), loop=self.w.loop)

    @property
    def indef_hits(self) -> int:
        return X690_WATCH["indef_no_eoc"]

    def close(self) -> None:
        self.w.close()

    # -- metered execution -------------------------------------------------------------
    def metered(self, coro: Any, budget: int) -> Tuple[str, Any, int, int]:
        """-> (status, value, events, peak_bytes); status in ok / exc / budget / loopcap / base"""
        w = self.w
        peak = 0
        if self.mem:
            tracemalloc.start()
            base_mem = tracemalloc.get_traced_memory()[0]
        Meter.start(budget)
        try:
            try:
                val = w.loop.run_until_complete(coro)
                status = "ok"
            except WorkBudgetExceeded as e:
                status, val = "budget", e
            except (EventCapExceeded, SimDeadlock) as e:
                status, val = "loopcap", e
            except Exception as e:  # noqa: BLE001
                status, val = "exc", e
            except BaseException as e:  # noqa: BLE001
                status, val = "base", e
        finally:
            events = Meter.stop()
            if Meter.tripped and status != "budget":
                # the budget exception was swallowed on its way (a Task wrapper, an `except BaseException`)
                status, val = "budget", WorkBudgetExceeded(events)
            if self.mem:
                peak = tracemalloc.get_traced_memory()[1] - base_mem
                tracemalloc.stop()
        return status, val, events, peak

    def run_case(self, m: list) -> dict:
        if self.special == "trap":
            return self._run_trap(m)
        w = self.w
        agent = agent_for(self.acred, dict(MIB))
        w.net.agents[("10.0.0.2", 161)] = agent
        client = w.client(self.ccred, timeout=1, retries=1)
        base_idx = w.net.dir_index["a2c"]
        info: Dict[str, Any] = {"orig": None, "mutated": None}
        n_data = [0]

        def rewriter(direction: str, idx: int, data: bytes) -> Optional[bytes]:
            if direction == "a2c" and idx == base_idx + self.k and self.where == "pre":
                info["orig"] = data
                info["mutated"] = apply_mutation(data, m)
                info["c2a_at_delivery"] = w.net.dir_index["c2a"]
                return info["mutated"]
            if direction == "a2c" and idx > base_idx + self.k and self.special == "sticky":
                info["sticky"] = info.get("sticky", 0) + 1
                return apply_mutation(data, m)
            return None

        def hook_scoped(req: dict, scoped: bytes) -> bytes:
            if req.get("discovery") or req.get("report"):
                return scoped
            n_data[0] += 1
            if self.where == "post" and n_data[0] == self.k:
                info["orig"] = scoped
                info["mutated"] = apply_mutation(scoped, m)
                return info["mutated"]
            return scoped

        if self.special == "reboot-after-discovery":
            def hook_v3(req: dict, f: dict) -> dict:
                if req.get("discovery") and not getattr(agent, "_rebooted", False):
                    agent._rebooted = True  # type: ignore[attr-defined]
                    w.loop.call_soon(agent.reboot, w.loop.time())
                return f
            agent.hook_v3 = hook_v3
        w.net.rewriter = rewriter
        agent.hook_scoped = hook_scoped
        if m[0] == "drop":
            # reference run: the targeted datagram is lost on the way (it conveys nothing, like one that is refused)
            w.net.explicit[("a2c", base_idx + self.k)] = [("drop", 0)]
        hits0 = self.indef_hits
        est_len = len(apply_mutation(b"\x00" * 200, m)) if m[0] in ("raw", "rand", "nest") else 300
        if m[0] == "big":
            est_len = 200 + (m[2] if m[1] == 1 else 8 * m[2])
        if self.special == "wide":
            est_len = 14000
        budget = A_EVENTS[self.op["op"]] + B_EVENTS * est_len
        status, val, events, peak = self.metered(scen.do_op(client, self.op), budget)
        w.net.rewriter = None
        agent.hook_scoped = None
        mutated = info["mutated"]
        out = {"status": status, "events": events, "peak": peak, "orig": info["orig"], "mutated": mutated,
               "budget": budget, "indef": self.indef_hits > hits0, "exc": type(val).__name__ if status != "ok" else None,
               "value": val if status == "ok" else None, "follow": None, "sticky": info.get("sticky", 0),
               # the client went on to send further requests after the mutated datagram: it accepted it
               "went_on": "c2a_at_delivery" in info and w.net.dir_index["c2a"] > info["c2a_at_delivery"]}
        if status in ("budget", "loopcap", "base"):
            return out
        # the fault is gone: the same client must behave as in the unmutated run
        agent.hook_v3 = None
        st2, val2, _, _ = self.metered(scen.do_op(client, GET), A_EVENTS["get"] + B_EVENTS * 300)
        out["follow"] = (st2, repr(val2) if st2 == "ok" else type(val2).__name__)
        self._settle()
        return out

    def run_leak(self, seedv: int, warm: int, polls: int) -> dict:
        """One long-lived client (or listener): *warm* exchanges, then *polls* more; returns the traced-memory growth."""
        import gc
        from puresnmp_plugins.priv import verifstream
        w = self.w
        trap = self.special == "trap"
        agent = None
        client = None
        if not trap:
            agent = agent_for(self.acred, dict(MIB))
            w.net.agents[("10.0.0.2", 161)] = agent
            client = w.client(self.ccred, timeout=1, retries=1)
        count = {"n": 0, "corrupted": 0, "raised": 0, "known_spin": 0}
        priv_on_wire = bool(self.ccred.get("priv")) if self.ccred else False

        def rewriter(direction: str, idx: int, data: bytes) -> Optional[bytes]:
            if direction != "a2c":
                return None
            count["n"] += 1
            k = keyed(seedv, "leak", count["n"])
            if k % 3 == 0 and len(data) > 4:
                count["corrupted"] += 1
                # (with privacy only the clear-text part is touched: a flipped ciphertext bit decrypts to arbitrary octets,
                # which is the single-case families' business and can run into the recorded x690 finding)
                bit = (k >> 8) % (8 * (min(len(data), 60) if priv_on_wire else len(data)))
                b = bytearray(data)
                b[bit // 8] ^= 1 << (bit % 8)
                if b[bit // 8] == 0x80:
                    b[bit // 8] = 0x81      # stay clear of the recorded x690 finding (indefinite length without EOC)
                return bytes(b)
            return None

        def prune() -> None:
            w.net.all_sockets[:] = [t for t in w.net.all_sockets if not t.is_closing()]
            w.net.events.clear()
            w.net.fired.clear()
            w.loop.exceptions.clear()
            if agent is not None:
                agent.requests.clear()
            for r in w.recorders:
                r.calls.clear()
            verifstream.CALLS.clear()
            del self.trap_got[:]

        async def one(j: int) -> None:
            if trap:
                vbs = TRAP_VBS[:3] + [((1, 3, 6, 1, 4, 1, 8072, 2, 3, 2, 2), ("str", b"payload-%d" % keyed(seedv, "p", count["n"], j)))]
                raw = S.enc_community_msg(1, b"public", S.enc_pdu(S.mkpdu(S.PDU_TRAP2, 77 + j, vbs)))
                out = rewriter("a2c", 0, raw) or raw
                w.net.inject(TRAP_SRC, TRAP_LISTEN, out, delay_ticks=1)
            else:
                try:
                    await scen.do_op(client, self.op)
                except Exception:  # noqa: BLE001
                    count["raised"] += 1
            await asyncio.sleep(1.0)
            prune()

        def exchanges(k: int) -> Tuple[str, Any, int]:
            """every exchange under its own work budget, like the single cases"""
            total = 0
            budget = A_EVENTS[self.op["op"] if self.op else "trap"] + B_EVENTS * 400
            for j in range(k):
                h0 = self.indef_hits
                st, val, ev, _ = self.metered(one(j), budget)
                total += ev
                if st == "budget" and self.indef_hits > h0:
                    # the recorded x690 finding (a flipped length octet made the parser read an existing 0x80 as a length):
                    # counted, reported through the single-case families; the long run goes on
                    count["known_spin"] += 1
                    prune()
                    continue
                if st != "ok":
                    return st, val, total
            return "ok", None, total
        if not trap:
            w.net.rewriter = rewriter
        hits0 = self.indef_hits
        tracemalloc.start(1)
        try:
            st1, val1, ev1 = exchanges(warm)
            gc.collect()
            m1 = tracemalloc.get_traced_memory()[0]
            st2, val2, ev2 = ("skipped", None, 0) if st1 != "ok" else exchanges(polls)
            gc.collect()
            m2 = tracemalloc.get_traced_memory()[0]
        finally:
            tracemalloc.stop()
            w.net.rewriter = None
        return {"status": st1 if st1 != "ok" else st2, "exc": None if (st1, st2) == ("ok", "ok") else repr(val1 if st1 != "ok" else val2)[:200],
                "growth": m2 - m1, "events": ev1 + ev2, "indef": self.indef_hits > hits0, **count}

    def _settle(self) -> None:
        async def idle() -> None:
            for _ in range(3):
                await asyncio.sleep(0)
        try:
            self.w.loop.run_until_complete(idle())
        except BaseException:  # noqa: BLE001
            pass

    def _run_trap(self, m: list) -> dict:
        w = self.w
        valid = S.enc_community_msg(1, b"public", S.enc_pdu(S.mkpdu(S.PDU_TRAP2, 77, TRAP_VBS)))
        mutated = apply_mutation(valid, m)
        before = len(self.trap_got)
        hits0 = self.indef_hits
        w.net.inject(TRAP_SRC, TRAP_LISTEN, mutated, delay_ticks=1)

        async def wait(ticks: int) -> None:
            await asyncio.sleep(ticks / 1024.0)
        budget = A_EVENTS["trap"] + B_EVENTS * len(mutated)
        status, val, events, peak = self.metered(wait(4), budget)
        out = {"status": status, "events": events, "peak": peak, "orig": valid, "mutated": mutated, "budget": budget,
               "indef": self.indef_hits > hits0, "exc": type(val).__name__ if status != "ok" else None,
               "value": len(self.trap_got) - before, "follow": None}
        if status in ("budget", "loopcap", "base"):
            return out
        mid = len(self.trap_got)
        w.net.inject(TRAP_SRC, TRAP_LISTEN, valid, delay_ticks=1)
        st2, val2, _, _ = self.metered(wait(4), A_EVENTS["trap"] + B_EVENTS * len(valid))
        new = self.trap_got[mid:]
        out["follow"] = (st2, repr(new) if st2 == "ok" else type(val2).__name__)
        return out


_BASELINE: Dict[str, Any] = {}


def baseline(scenario: str, kind: str = "none") -> dict:
    """The unmutated case of a scenario, or (kind="drop") the case in which the targeted datagram is lost
    (computed once per process; deterministic)."""
    src = __import__("os").environ.get("VERIF_REPO_SRC", "/repo/src")
    key = (scenario, src, kind)
    if key not in _BASELINE:
        env = Env(scenario, False)
        try:
            _BASELINE[key] = env.run_case([kind])
        finally:
            env.close()
    return _BASELINE[key]


# ---------------------------------------------------------------------------------------
# enumeration

def _segments(tier: str) -> List[Tuple[str, str, int]]:
    """(scenario, mutation family, number of mutations) in a fixed order."""
    segs: List[Tuple[str, str, int]] = []
    names = QUICK_SCENARIOS if tier == "quick" else list(SCENARIOS)
    for name in names:
        if SCENARIOS[name][5] == "wide":
            continue
        base = baseline(name)
        raw = base["orig"] or b""
        n, h = len(raw), len(header_positions(raw))
        segs.append((name, "flip", 8 * n))
        segs.append((name, "trunc", n))
        segs.append((name, "hsub", h * (len(DICT) if tier == "quick" else 256)))
        segs.append((name, "eoc", h))
        segs.append((name, "multi", 300 if tier == "quick" else 6000))
        segs.append((name, "rand", 150 if tier == "quick" else 3000))
        segs.append((name, "nest", 8 if tier == "quick" else 24))
        if "disco" not in name and "report" not in name:
            segs.append((name, "big", 6 if tier == "quick" else 24))
            segs.append((name, "tiny", 6))
        if name.startswith("v3") and SCENARIOS[name][4] == "pre":
            segs.append((name, "secint", 12 if tier == "quick" else 36))
    for name in LEAK_SCENARIOS:
        segs.append((name, "leak", 1))
    segs.append(("v2c-getnext-400", "wide", 48))
    return segs


_SEGCACHE: Dict[str, Any] = {}


def _layout(tier: str) -> List[Tuple[str, str, int, int]]:
    """(scenario, family, first mutation index, count) per plan."""
    if tier not in _SEGCACHE:
        plans = []
        for name, fam, count in _segments(tier):
            for start in range(0, count, CHUNK):
                plans.append((name, fam, start, min(CHUNK, count - start)))
        _SEGCACHE[tier] = plans
    return _SEGCACHE[tier]


def total(tier: str) -> int:
    return len(_layout(tier))


def exhaustive(tier: str) -> Optional[str]:
    names = QUICK_SCENARIOS if tier == "quick" else list(SCENARIOS)
    return ("for each of the %d base messages (%s): all single-bit flips, all truncations, all TLV header positions x %s; "
            "pairs/triples, random strings and nesting depths are seeded samples" % (
                len(names), ", ".join(names), "16 dictionary octets" if tier == "quick" else "all 256 octet values"))


def plan_for(tier: str, seed: int, i: int) -> dict:
    name, fam, start, count = _layout(tier)[i]
    nvals = len(DICT) if tier == "quick" else 256
    base = baseline(name)
    h = max(1, len(header_positions(base["orig"] or b"")))
    muts: List[list] = []
    for j in range(start, start + count):
        if fam == "flip":
            muts.append(["flip", j])
        elif fam == "trunc":
            muts.append(["trunc", j])
        elif fam == "hsub":
            pos, v = divmod(j, nvals)
            muts.append(["hsub", pos, DICT[v] if tier == "quick" else v])
        elif fam == "eoc":
            muts.append(["eoc", j, 0x80, 1 + j % 3])
        elif fam == "multi":
            rng = rng_for(seed, ID, tier + ":" + name + ":multi", j)
            k = rng.choice([2, 2, 3])
            m: list = ["hsub"]
            for p in rng.sample(range(h), min(k, h)):
                m += [p, rng.choice(DICT)]
            muts.append(m)
        elif fam == "rand":
            rng = rng_for(seed, ID, tier + ":" + name + ":rand", j)
            n = 65507 if j % 50 == 49 else rng.choice([0, 1, 2, 3, 5, 8, 16, 40, 100, 300, 1000, 2000, rng.randrange(0, 2001)])
            muts.append(["rand", rng.getrandbits(40), n])
        elif fam == "secint":
            sizes = [5, 8, 11, 16, 4, 9, 33, 64, 127, 126, 3, 200]
            muts.append(["secint", j % 3, sizes[(j // 3) % len(sizes)]])
        elif fam == "wide":
            # the unmutated 14 kB answer, 24 seeded single-bit flips and 23 truncations of it
            r = rng_for(seed, ID, tier + ":wide", j)
            n = len(base["orig"] or b"x")
            muts.append(["none"] if j == 0 else ["flip", r.randrange(8 * n)] if j % 2 else ["trunc", r.randrange(n)])
        elif fam == "leak":
            muts.append(["leak", LEAK_WARM, LEAK_POLLS, rng_for(seed, ID, tier + ":" + name + ":leak", j).getrandbits(40)])
        elif fam == "tiny":
            # well-formed but degenerate: a response / an error response with no binding at all, or with a single one
            muts.append(["big", (0, 2, 3)[j % 3], j // 3])
        elif fam == "big":
            style = j % 4
            sizes = [2000, 8000, 500, 60000] if style == 1 else [300, 2500, 1000, 6500, 4000, 50]
            muts.append(["big", style, sizes[(j // 4) % len(sizes)]])
        else:
            depths = [1, 10, 100, 1000, 5000, 10900, 20000, 32750]
            style = j % 4
            d = depths[(j // 4) % len(depths)]
            if style in (2, 3):
                d = min(d, 10900)
            if style == 1:
                d = min(d, 16000)
            muts.append(["nest", style, d])
    return {"prop": ID, "scenario": name, "family": fam, "mutations": muts, "mem": i % 4 == 0}


def valid(plan: dict) -> bool:
    return bool(plan["mutations"])


def simplify(plan: dict):
    if plan.get("mem"):
        p = dict(plan); p["mem"] = False; yield p


def shortcut(plan: dict, out: dict) -> Optional[dict]:
    m = (out.get("violation") or {}).get("mutation")
    if m is None or len(plan["mutations"]) <= 1:
        return None
    return dict(plan, mutations=[list(m)])


def _execute_leak(plan: dict) -> dict:
    name = plan["scenario"]
    _, warm, polls, seedv = plan["mutations"][0]
    env = Env(name, False)
    try:
        res = env.run_leak(seedv, warm, polls)
        digest = hashlib.sha256(repr((env.w.net.digest(), res["n"], res["corrupted"], res["raised"], res["status"])).encode()).hexdigest()
        counters = dict(env.w.net.counters)
        sim_s = env.w.loop.time()
    finally:
        env.close()
    violation = None
    triggers: List[str] = []
    desc = "scenario %s: one long-lived %s, %d+%d exchanges, %d datagrams corrupted" % (
        name, "listener" if SCENARIOS[name][5] == "trap" else "client", warm, polls, res["corrupted"])
    if res["status"] != "ok":
        violation = {"clause": {"budget": "cpu-budget", "loopcap": "event-loop-spin"}.get(res["status"], "long-run-raised"),
                     "detail": "%s: ended with %s %s" % (desc, res["status"], res["exc"]), "mutation": plan["mutations"][0]}
        if res["indef"]:
            triggers.append("C20-x690-indefinite-length-without-eoc")
    elif res["growth"] > LEAK_ALLOW:
        violation = {"clause": "memory-retained", "detail": "%s: %d octets more are retained after the last %d exchanges than "
                     "after the warm-up (allowance %d): memory grows with the number of datagrams processed" % (
                         desc, res["growth"], polls, LEAK_ALLOW), "mutation": plan["mutations"][0]}
    probes = {k: 0 for k in PROBES}
    probes["long_lived_retention_measured"] = 1
    probes["trap"] = int(SCENARIOS[name][5] == "trap")
    probes["raised"] = int(res["raised"] > 0)
    for k, v in probes.items():
        counters["probe_" + k] = v
    counters["fault_leak_corrupted_datagrams"] = res["corrupted"]
    counters["leak_exchanges_cut_short_by_known_x690_spin"] = res["known_spin"]
    return {
        "violation": violation, "digest": digest, "triggers": triggers, "counters": counters,
        "shape": "%s|leak" % name, "nontrivial": res["corrupted"] > 0, "n_evals": warm + polls, "n_distinct": res["corrupted"],
        "sim_s": sim_s, "exchanges": warm + polls,
        "sets": {"retained_growth_octets_max": [res["growth"]]},
        "summary": "%s leak: growth %d octets over %d exchanges (%d corrupted, %d raised)" % (
            name, res["growth"], polls, res["corrupted"], res["raised"]),
    }


def execute(plan: dict) -> dict:
    if plan["family"] == "leak":
        return _execute_leak(plan)
    name = plan["scenario"]
    base = baseline(name)
    lost = baseline(name, "drop") if SCENARIOS[name][5] != "trap" else base
    env = Env(name, bool(plan.get("mem")))
    violation = None
    triggers: List[str] = []
    probes = {k: 0 for k in PROBES}
    n_evals = n_distinct = 0
    seen = set()
    max_events = 0
    max_peak = 0

    def fail(clause: str, d: str, res: dict) -> None:
        nonlocal violation
        if violation is None:
            violation = {"clause": clause, "detail": d, "mutation": res.get("m")}
            if res.get("indef"):
                triggers.append("C20-x690-indefinite-length-without-eoc")

    try:
        for m in plan["mutations"]:
            m = list(m)
            res = env.run_case(m)
            res["m"] = m
            n_evals += 1
            mutated, orig = res["mutated"], res["orig"]
            reached = mutated is not None
            changed = reached and mutated != orig
            if changed:
                dg = hashlib.blake2b(mutated, digest_size=8).hexdigest()
                if dg not in seen:
                    seen.add(dg)
                    n_distinct += 1
            max_events = max(max_events, res["events"])
            max_peak = max(max_peak, res["peak"])
            fam = m[0]
            probes["flip"] |= int(fam == "flip"); probes["trunc"] |= int(fam == "trunc")
            probes["hsub"] |= int(fam == "hsub" and len(m) == 3); probes["hsub_multi"] |= int(fam == "hsub" and len(m) > 3)
            probes["eoc"] |= int(fam == "eoc"); probes["random"] |= int(fam == "rand")
            probes["random_max_size"] |= int(fam == "rand" and m[2] == 65507); probes["nest"] |= int(fam == "nest")
            probes["huge_engine_boots_or_time"] |= int(fam == "secint" and reached and changed)
            probes["big_wellformed"] |= int(fam == "big" and reached)
            probes["empty_or_single_binding_list"] |= int(fam == "big" and m[2] <= 1 and reached)
            probes["big_over_50k_octets"] |= int(fam == "big" and reached and len(mutated) > 50000)
            probes["every_later_datagram_mutated"] |= int(res.get("sticky", 0) > 0)
            probes["post_auth"] |= int(env.where == "post" and reached)
            probes["discovery_reply"] |= int("disco" in name and reached); probes["report"] |= int("report" in name and reached)
            probes["trap"] |= int(env.special == "trap")
            probes["raised"] |= int(res["status"] == "exc")
            probes["accepted_mutated"] |= int(res["status"] == "ok" and changed)
            probes["recursion_error"] |= int(res["exc"] == "RecursionError")
            probes["indefinite_no_eoc_reached"] |= int(bool(res["indef"]))
            probes["timeout_path"] |= int(res["exc"] == "Timeout")
            probes["memory_measured"] |= int(bool(plan.get("mem")))
            ln = len(mutated) if mutated is not None else 0
            desc = "scenario %s mutation %r (datagram %d octets%s)" % (
                name, m if m[0] != "raw" else ["raw", "..."], ln, "" if ln > 80 or mutated is None else ": " + mutated.hex())
            if res["status"] == "budget":
                fail("cpu-budget", "%s: more than %d counted events while processing it" % (desc, res["budget"]), res)
                break
            if res["status"] == "loopcap":
                fail("event-loop-spin", "%s: %s" % (desc, res["exc"]), res)
                break
            if res["status"] == "base":
                fail("base-exception", "%s: ended with %s" % (desc, res["exc"]), res)
                break
            if plan.get("mem") and res["peak"] > C_BYTES + D_BYTES * ln:
                fail("memory-budget", "%s: peak traced memory %d bytes" % (desc, res["peak"]), res)
                break
            judged = "disco" not in name or (res["status"] == "exc" and not res.get("went_on"))
            if res["follow"] is not None and res["follow"][0] not in ("ok", "exc"):
                fail("unusable-after", "%s: the next request on the same client never completed (%s)" % (desc, res["follow"]), res)
                break
            if judged and res["follow"] != base["follow"] and res["follow"] != lost["follow"]:
                fail("unusable-after", "%s: the next request on the same client gave %r; in the unmutated run it gives %r, in "
                     "the run where that datagram is lost %r (mutated exchange ended with %s)" % (
                         desc, res["follow"], base["follow"], lost["follow"], res["exc"] or "a result"), res)
                break
    finally:
        digest = env.w.net.digest()
        counters = dict(env.w.net.counters)
        sim_s = env.w.loop.time()
        env.close()
    for k, v in probes.items():
        counters["probe_" + k] = v
    counters["fault_" + plan["family"]] = n_evals
    counters["max_events_per_case"] = 0   # maxima are not additive: reported through sets below
    return {
        "violation": violation, "digest": digest, "triggers": triggers, "counters": counters,
        "shape": "%s|%s|%s" % (name, plan["family"], plan["mutations"][0]), "nontrivial": n_distinct > 0,
        "n_evals": n_evals, "n_distinct": n_distinct, "sim_s": sim_s, "exchanges": n_evals * 2,
        "sets": {"events_per_case_max": [max_events], "peak_bytes_per_case_max": [max_peak]},
        "summary": "%s %s x%d: max %d events, peak %d bytes" % (name, plan["family"], n_evals, max_events, max_peak),
    }


def describe(plan: dict) -> str:
    return "scenario=%s family=%s mutations=%s" % (plan["scenario"], plan["family"], plan["mutations"][:6])
