"""C04 - GET/GETNEXT/SET/GETBULK results are exactly the agent's answers, in order."""
from __future__ import annotations

from typing import Any, Dict, List, Optional

from .. import gen, scen
from .. import refsnmp as S
from ..runner import rng_for
from ..world import World, agent_for, gen_proto

ID = "C04"
LEVEL = "exploration"
RULE = ("Seeded plans: MIB of 3-25 objects of every value type, 3-10 operations from {get, multiget, getnext, multigetnext, "
        "set, multiset, bulkget} with OID lists of 1-8 (duplicates, absent objects, end of view), every non-repeater/repeater "
        "split 0-4/0-4 and max-repetitions 0-12, v1/v2c/v3 at each level; in 40% of the runs one agent fault "
        "(add-binding, drop-binding, over-long GETBULK, short GETBULK) hits one operation. Oracle: the agent's request log "
        "(what was asked) and the response it actually sent (what must be returned). Non-trivial: >=1 operation whose oracle "
        "was evaluated on a completed exchange; distinct = distinct (protocol level, sequence of (operation, outcome class), fault).")
ASSUMPTIONS = [
    "multigetnext may stop at the first endOfMibView binding or keep marker bindings in place; what it returns must be "
    "position-wise the agent's answers (no binding attributed to another requested OID)",
    "an added binding is for a further, different OID (a duplicate of a requested OID collapses in multiset's dict by design)",
]
PROBES = ["repeated_with_same_argument_objects", "get_missing", "getnext_end_of_view", "multigetnext_with_eom", "bulk_maxrep_0", "bulk_empty", "set_normalised",
          "fault_add_binding", "fault_drop_binding", "fault_overlong_bulk", "fault_short_bulk", "v1", "v3_priv", "dup_oids",
          "usmstats_objects_v3"]
shrink_lists = [("ops",), ("mib",)]
FAULTS = ["add", "drop", "overlong", "short"]


def total(tier: str) -> int:
    return 4000 if tier == "quick" else 150000


def plan_for(tier: str, seed: int, i: int) -> dict:
    rng = rng_for(seed, ID, tier, i)
    proto = gen_proto(rng, versions=("v1", "v2c", "v2c", "v3", "v3"))
    base = (1, 3, 6, 1, 2, 1, rng.randrange(1, 4))
    mib = {}
    kinds = list(gen.ALL_KINDS)
    for _ in range(rng.randrange(3, 26)):
        oid = base + (rng.randrange(1, 6), rng.randrange(0, 4))
        if rng.random() < 0.3:
            oid += (rng.choice(gen.BIG_ARCS),)
        mib[oid] = gen.gen_value(rng, kinds=kinds, max_str=80)
    if rng.random() < 0.15:
        # the agent's own usmStats counters are ordinary objects; the client special-cases their OIDs in Reports only
        for k in range(1, 7):
            mib[(1, 3, 6, 1, 6, 3, 15, 1, 1, k, 0)] = ("c32", rng.randrange(0, 50))
    keys = sorted(mib)
    ops = [scen.gen_simple_op(rng, keys, proto["version"]) for _ in range(rng.randrange(3, 11))]
    # a poller repeats calls with the very same argument objects (the harness hands the same lists/dict to the client for
    # identical operations of one plan): the answer to the repetition is judged like the first
    rrng = rng_for(seed, ID, tier + ":repeat", i)
    if rrng.random() < 0.3:
        for _ in range(rrng.randrange(1, 3)):
            src = rrng.randrange(len(ops))
            ops.insert(rrng.randrange(src + 1, len(ops) + 1), dict(ops[src]))
    fault = None
    if rng.random() < 0.4:
        fault = {"kind": rng.choice(FAULTS), "op_index": rng.randrange(0, len(ops)), "pos": rng.randrange(0, 8)}
    return {"prop": ID, "proto": proto, "mib": sorted(mib.items()), "ops": ops, "fault": fault,
            "normalise": rng.random() < 0.4, "clock": gen.gen_clock(rng)}


def valid(plan: dict) -> bool:
    return bool(plan["ops"])


def simplify(plan: dict):
    if plan["proto"]["version"] == "v3":
        p = dict(plan); p["proto"] = {"version": "v2c", "community": "public"}; yield p
    if plan.get("fault") and plan["fault"]["op_index"] >= len(plan["ops"]):
        p = dict(plan); p["fault"] = dict(plan["fault"], op_index=len(plan["ops"]) - 1); yield p
    if plan.get("fault"):
        for k in range(len(plan["ops"])):
            if k != plan["fault"]["op_index"]:
                p = dict(plan); p["fault"] = dict(plan["fault"], op_index=k); yield p
    for idx, op in enumerate(plan["ops"]):
        for key in ("oids", "scalars", "repeaters", "items"):
            if key in op and len(op[key]) > 1:
                for j in range(len(op[key])):
                    p = dict(plan); p["ops"] = list(plan["ops"])
                    p["ops"][idx] = dict(op, **{key: op[key][:j] + op[key][j + 1:]})
                    yield p


def execute(plan: dict) -> dict:
    proto = plan["proto"]
    version = proto["version"]
    w = World(clock=plan.get("clock"))
    agent = w.add_agent(agent_for(proto, dict(plan["mib"])))
    if plan.get("normalise"):
        agent.set_normalise = lambda oid, val: ("str", b"N:" + val[1]) if val[0] == "str" else val
    fault = plan.get("fault")
    state = {"op": -1, "fired": None}

    def hook(req: dict, resp: dict) -> Optional[dict]:
        if not fault or state["op"] != fault["op_index"] or state["fired"]:
            return resp
        kind = fault["kind"]
        tag = req["pdu"]["tag"]
        vbs = list(resp["vbs"])
        if resp["es"] != 0:
            return resp
        if kind == "add" and tag != S.PDU_BULK:
            extra = (1, 3, 6, 1, 99, fault["pos"], 0)
            vbs.insert(min(fault["pos"], len(vbs)), (extra, ("int", 4242)))
        elif kind == "drop" and tag != S.PDU_BULK and vbs:
            del vbs[fault["pos"] % len(vbs)]
        elif kind == "overlong" and tag == S.PDU_BULK:
            n = max(0, min(req["pdu"]["es"], len(req["pdu"]["vbs"])))
            limit = n + max(0, req["pdu"]["ei"]) * (len(req["pdu"]["vbs"]) - n)
            while len(vbs) <= limit:
                vbs.append(((1, 3, 6, 1, 99, len(vbs), 0), ("int", 7)))
        elif kind == "short" and tag == S.PDU_BULK and len(vbs) > 1:
            vbs = vbs[:1 + fault["pos"] % (len(vbs) - 1)]
        else:
            return resp
        state["fired"] = kind
        return dict(resp, vbs=vbs)

    agent.hook_pdu = hook
    client = w.client(proto, timeout=1, retries=1)
    violation = None
    outcomes: List[str] = []
    probes: Dict[str, int] = {k: 0 for k in PROBES}
    probes["v1"] = int(version == "v1")
    probes["v3_priv"] = int(bool(proto.get("priv")))

    def fail(k: int, clause: str, d: str) -> None:
        nonlocal violation
        if violation is None:
            violation = {"clause": clause, "detail": "op#%d %s: %s" % (k, _op_str(plan["ops"][k]), d)}

    arg_objects: Dict[Any, Any] = {}
    seen_ops: List[str] = []
    for k, op in enumerate(plan["ops"]):
        state["op"] = k
        before = len(agent.requests)
        res = exc = None
        if repr(op) in seen_ops and op["op"] in ("multiget", "multigetnext", "multiset", "bulkget"):
            probes["repeated_with_same_argument_objects"] = 1
        seen_ops.append(repr(op))

        async def one() -> Any:
            return await scen.do_op(client, op, arg_objects)
        try:
            res = w.run(one())
        except Exception as e:  # noqa: BLE001
            exc = e
        new = [r for r in agent.requests[before:] if r["verdict"] == "ok"]
        excname = type(exc).__name__ if exc else None
        outcomes.append("%s:%s" % (op["op"], excname or "ok"))
        if len(new) != 1:
            fail(k, "request-count", "%d requests reached the agent (verdicts %s), exception %s: %s" % (
                len(new), [r["verdict"] for r in agent.requests[before:]], excname, exc))
            continue
        req = new[0]
        _check_request(k, op, req, fail, version)
        resp = req["resp_pdu"]
        fired_here = fault and state["fired"] and k == fault["op_index"]
        is_snmp_error = exc is not None and _is_snmp_error(exc)
        if fired_here and state["fired"] in ("add", "drop", "overlong"):
            probes["fault_%s" % {"add": "add_binding", "drop": "drop_binding", "overlong": "overlong_bulk"}[state["fired"]]] = 1
            if not is_snmp_error:
                fail(k, "count-fault-accepted", "fault %s: expected SnmpError, got %s %r" % (
                    state["fired"], excname, res if exc is None else str(exc)))
            continue
        if fired_here and state["fired"] == "short":
            probes["fault_short_bulk"] = 1
        _check_result(k, op, req, resp, res, exc, fail, version, probes)

    w.settle()
    counters = dict(w.net.counters)
    for kk, v in probes.items():
        counters["probe_" + kk] = v
    level = proto.get("level", "") if version == "v3" else ""
    out = {
        "violation": violation, "digest": w.net.digest(), "triggers": [], "counters": counters,
        "shape": repr((version, level, tuple(outcomes), state["fired"])),
        "nontrivial": agent.exchanges > 0, "sim_s": w.loop.time(), "exchanges": agent.exchanges,
        "summary": " ".join(outcomes),
    }
    w.close()
    return out


def _is_snmp_error(exc: BaseException) -> bool:
    from puresnmp.exc import SnmpError
    return isinstance(exc, SnmpError)


def _op_str(op: dict) -> str:
    def s(o: Any) -> str:
        return S.oid_str(tuple(o))
    k = op["op"]
    if k in ("get", "getnext"):
        return "%s(%s)" % (k, s(op["oid"]))
    if k in ("multiget", "multigetnext"):
        return "%s(%s)" % (k, [s(o) for o in op["oids"]])
    if k == "set":
        return "set(%s=%r)" % (s(op["oid"]), op["val"])
    if k == "multiset":
        return "multiset(%s)" % [(s(o), v) for o, v in op["items"]]
    return "bulkget(scalars=%s, repeaters=%s, max=%d)" % ([s(o) for o in op["scalars"]],
                                                           [s(o) for o in op["repeaters"]], op["maxrep"])


def _check_request(k: int, op: dict, req: dict, fail: Any, version: str) -> None:
    pdu = req["pdu"]
    kind = op["op"]
    want_tag = {"get": S.PDU_GET, "multiget": S.PDU_GET, "getnext": S.PDU_GETNEXT, "multigetnext": S.PDU_GETNEXT,
                "set": S.PDU_SET, "multiset": S.PDU_SET, "bulkget": S.PDU_BULK}[kind]
    if pdu["tag"] != want_tag:
        fail(k, "wrong-pdu-type", "agent received PDU tag %#x" % pdu["tag"])
        return
    if kind in ("get", "getnext"):
        want = [(tuple(op["oid"]), ("null", None))]
    elif kind in ("multiget", "multigetnext"):
        want = [(tuple(o), ("null", None)) for o in op["oids"]]
    elif kind == "set":
        want = [(tuple(op["oid"]), tuple(op["val"]))]
    elif kind == "multiset":
        want = [(tuple(o), tuple(v)) for o, v in op["items"]]
    else:
        want = [(tuple(o), ("null", None)) for o in list(op["scalars"]) + list(op["repeaters"])]
        if pdu["es"] != len(op["scalars"]) or pdu["ei"] != op["maxrep"]:
            fail(k, "bulk-parameters", "non-repeaters=%d max-repetitions=%d" % (pdu["es"], pdu["ei"]))
    if [(o, tuple(v)) for o, v in pdu["vbs"]] != want:
        fail(k, "request-bindings", "agent received %r, intended %r" % (pdu["vbs"], want))


def _check_result(k: int, op: dict, req: dict, resp: dict, res: Any, exc: Optional[BaseException], fail: Any,
                  version: str, probes: Dict[str, int]) -> None:
    kind = op["op"]
    excname = type(exc).__name__ if exc else None
    vbs = resp["vbs"]
    if req.get("version") == 3 and any(tuple(o)[:9] == (1, 3, 6, 1, 6, 3, 15, 1, 1) for o, _ in vbs):
        probes["usmstats_objects_v3"] = 1
    if resp["es"] != 0:  # v1 noSuchName
        if excname != "NoSuchOID":
            fail(k, "error-status", "agent answered error-status %d, call ended with %s %r" % (resp["es"], excname, res))
        if kind in ("get", "multiget"):
            probes["get_missing"] = 1
        if kind in ("getnext", "multigetnext"):
            probes["getnext_end_of_view"] = 1
        return
    if kind == "get":
        v = vbs[0][1]
        if v[0] in ("nso", "nsi"):
            probes["get_missing"] = 1
            if excname != "NoSuchOID":
                fail(k, "placeholder-returned", "missing object: expected NoSuchOID, got %s %r" % (excname, res))
        elif exc is not None or res != v:
            fail(k, "wrong-result", "agent answered %r, call gave %s %r" % (v, excname, res if exc is None else str(exc)))
        return
    if kind == "multiget":
        want = [v for _, v in vbs]
        if len(set(tuple(o) for o in op["oids"])) < len(op["oids"]):
            probes["dup_oids"] = 1
        if exc is not None or res != want:
            fail(k, "wrong-result", "agent answered %r, call gave %s %r" % (want, excname, res if exc is None else str(exc)))
        return
    if kind == "getnext":
        o, v = vbs[0]
        if v[0] == "eom":
            probes["getnext_end_of_view"] = 1
            if exc is None:
                fail(k, "placeholder-returned", "end of view: expected an exception, got %r" % (res,))
        elif exc is not None or res != (o, v):
            fail(k, "wrong-result", "agent answered %r, call gave %s %r" % ((o, v), excname, res if exc is None else str(exc)))
        return
    if kind == "multigetnext":
        full = [(o, v) for o, v in vbs]
        first_eom = next((i for i, (_, v) in enumerate(full) if v[0] == "eom"), len(full))
        if first_eom < len(full):
            probes["multigetnext_with_eom"] = 1
            ok = exc is not None or res == full[:first_eom] or res == full
        else:
            ok = exc is None and res == full
        if not ok:
            fail(k, "wrong-result", "agent answered %r, call gave %s %r" % (full, excname, res if exc is None else str(exc)))
        return
    if kind in ("set", "multiset"):
        sent = req.get("set")
        want_sent = [(tuple(op["oid"]), tuple(op["val"]))] if kind == "set" else [(tuple(o), tuple(v)) for o, v in op["items"]]
        if [(o, tuple(v)) for o, v in (sent or [])] != want_sent:
            fail(k, "set-delivery", "agent stored %r, caller supplied %r" % (sent, want_sent))
        if any(a[1] != b[1] for a, b in zip(vbs, want_sent)):
            probes["set_normalised"] = 1
        if kind == "set":
            if exc is not None or res != vbs[0][1]:
                fail(k, "wrong-result", "agent confirmed %r, call gave %s %r" % (vbs[0][1], excname, res if exc is None else str(exc)))
        else:
            if exc is not None or sorted(res) != sorted(dict(vbs).items()):
                fail(k, "wrong-result", "agent confirmed %r, call gave %s %r" % (vbs, excname, res if exc is None else str(exc)))
        return
    if kind == "bulkget":
        n = len(op["scalars"])
        if op["maxrep"] == 0:
            probes["bulk_maxrep_0"] = 1
        if not vbs:
            probes["bulk_empty"] = 1
        want_sc = list(dict(vbs[:n]).items())
        listing: Dict[tuple, Any] = {}
        for o, v in vbs[n:]:
            if v[0] == "eom":
                break
            listing[o] = v
        want = {"scalars": want_sc, "listing": list(listing.items())}
        if exc is not None or res != want:
            fail(k, "wrong-result", "agent answered %r, call gave %s %r" % (vbs, excname, res if exc is None else str(exc)))


def describe(plan: dict) -> str:
    return "proto=%s fault=%s normalise=%s\nops=%s\nmib=%s" % (
        {k: v for k, v in plan["proto"].items() if "pass" not in k}, plan.get("fault"), plan.get("normalise"),
        [_op_str(o) for o in plan["ops"]], [(S.oid_str(tuple(o)), v[0]) for o, v in plan["mib"]])
