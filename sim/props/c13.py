"""C13 - UDP sender: bounded retries, exact timeout behaviour, no socket left open."""
from __future__ import annotations

import asyncio
import itertools
from typing import Any, Dict, List, Optional, Tuple

from .. import refsnmp as S
from ..agent import RefAgent
from ..loop import TICK, keyed
from ..runner import rng_for
from ..world import OID, World, to_ref

ID = "C13"
LEVEL = "fault_enumeration"
OUTCOMES = "RNLDIFB"  # reply in time, no reply, late reply, two replies, ICMP/OS error, fatal socket error, send blocked (EAGAIN)
SEQS: List[Tuple[int, str]] = [(r, "".join(s)) for r in (1, 2, 3, 4) for s in itertools.product(OUTCOMES, repeat=r)]
TIMEOUTS = [1, 2, 6, 0.5]
RULE = ("All %d sequences of per-attempt outcomes from {reply in time, no reply, reply after the timeout, two replies, "
        "send queue full (EAGAIN: the transport buffers the datagram beyond the attempt's timeout), ICMP/OS error (port unreachable = ConnectionRefusedError, host/net unreachable and message-too-long = plain OSError), "
        "fatal socket error} of length = retries for retries in 1..4 are enumerated; quick runs each with every timeout in "
        "{1, 2, 6, 0.5} s (latencies and entry point seeded), thorough runs each with every timeout in {1, 2, 6, 0.5} s and 8 latency seeds, "
        "half through send_udp directly and half through Client.get; socket creation may take time, the peer may be an IPv6 "
        "host, the caller may cancel the call at an arbitrary instant; in half of the runs the wall clock (time.time) jumps "
        "forwards/backwards by 30 s .. 1 day at some of its readings. A scripted peer on the simulated network produces "
        "the outcome of attempt k. Oracle on the simulated transport under virtual time: sendto count <= retries, identical "
        "payloads, attempt k+1 exactly `timeout` virtual seconds after an unanswered attempt k, the first reply's bytes are "
        "returned at the instant they are delivered, Timeout after exactly retries x timeout, replies never cross sockets, "
        "and after the call every socket it opened is closed. Non-trivial: every run; distinct = distinct (sequence, "
        "timeout, latency seed, entry point)." % len(SEQS))
ASSUMPTIONS = [
    "a call cancelled by its caller while a datagram is still waiting in the transport buffer (send queue full) may keep that "
    "socket until the queue drains (asyncio's close() semantics); it must be closed once it has drained",
    "for ICMP/OS errors and fatal socket errors the property does not say whether to retry or propagate: only the "
    "transmission bound, payload identity and the socket clause are checked on those paths",
    "real loopback sockets (/proc/self/fd) are outside deterministic simulation; they are used only by `selftest fidelity`",
]
PROBES = ["second_call_in_flight_at_the_same_time", "another_loop_used_before_and_still_open", "timeout_raised", "late_reply_dropped", "duplicate_reply", "icmp_error", "fatal_error", "reply_on_last_attempt",
          "via_client_get", "error_then_retry_or_raise", "wall_clock_jumps", "send_blocked", "empty_reply", "slow_socket_setup", "ipv6_peer",
          "cancelled_by_caller", "reply_over_1024_octets"]
shrink_lists: List[tuple] = []


def total(tier: str) -> int:
    return len(SEQS) * len(TIMEOUTS) if tier == "quick" else len(SEQS) * len(TIMEOUTS) * 8


def exhaustive(tier: str) -> Optional[str]:
    return "all %d outcome sequences (length = retries, retries 1..4) x 4 timeouts%s" % (
        len(SEQS), "" if tier == "quick" else " x 8 latency seeds")


def plan_for(tier: str, seed: int, i: int) -> dict:
    if tier == "quick":
        retries, seq = SEQS[i % len(SEQS)]
        rng = rng_for(seed, ID, tier, i)
        timeout = TIMEOUTS[i // len(SEQS)]
        latseed = rng.getrandbits(32)
        via = rng.choice(["send_udp", "client"])
    else:
        retries, seq = SEQS[i % len(SEQS)]
        j = i // len(SEQS)
        timeout = TIMEOUTS[j % len(TIMEOUTS)]
        latseed = seed * 1000 + j // len(TIMEOUTS)
        via = "send_udp" if (j // len(TIMEOUTS)) % 2 == 0 else "client"
    # the wall clock (time.time) is stepped forwards/backwards at some of its readings: NTP correction, VM resume.
    # Timeouts are defined on the monotonic clock; no wall-clock behaviour may change what the sender does.
    crng = rng_for(seed, ID, tier + ":clock", i)
    clock = {"mode": "tied", "epoch": 1_700_000_000}
    if crng.random() < 0.5:
        clock = {"mode": "jumping", "epoch": 1_700_000_000,
                 "jumps": [[k, crng.choice([30, 3600, 86400, -3600, -30])] for k in sorted(crng.sample(range(0, 8), crng.randrange(1, 4)))]}
    # socket creation may take time (per attempt), the peer may be an IPv6 host, and the caller may give up (cancel the
    # call) at an arbitrary instant
    setup = [crng.choice([0, 0, 0, 10, int(256 * timeout)]) for _ in range(retries)]
    cancel_at = crng.choice([1, 5, int(1024 * timeout) + 3, int(1024 * timeout * retries) - 2]) if crng.random() < 0.1 else None
    return {"prop": ID, "retries": retries, "seq": seq, "timeout": timeout, "latseed": latseed, "via": via, "clock": clock,
            "setup_ticks": setup, "ipv6": crng.random() < 0.2, "cancel_at": cancel_at,
            # another event loop of the same process on which the sender was used before and which is still open (a second
            # thread's loop, a loop kept for later): the call under test runs on its own loop all the same
            "other_loop_open": rng_for(seed, ID, tier + ":loop", i).random() < 0.06,
            # a second, independent call to another (silent) peer runs at the same time on the same loop: each call has its
            # own retry budget and timing
            "background": _gen_background(rng_for(seed, ID, tier + ":bg", i)) if cancel_at is None else None}


def _gen_background(r: Any) -> Optional[dict]:
    if r.random() >= 0.08:
        return None
    return {"retries": r.randrange(1, 4), "timeout": r.choice(TIMEOUTS), "start_ticks": r.choice([0, 0, 1, 300, 1024, 1500])}


class ScriptedPeer:
    """Plays the per-attempt outcomes; replies carry the attempt number."""

    def __init__(self, w: World, plan: dict) -> None:
        self.w = w
        self.plan = plan
        self.attempts: List[dict] = []
        self.by_port: Dict[int, dict] = {}
        self.inner = RefAgent({(1, 3, 6, 1, 2, 1, 1, 1, 0): ("str", b"descr")}, communities={1: {b"public"}})

    def _lat(self, k: int, j: int = 0, late: bool = False) -> int:
        tmo = int(self.plan["timeout"] * 1024)
        x = keyed(self.plan["latseed"], "lat", k, j)
        if late:
            return tmo + 1 + x % 64
        return 1 + x % max(1, tmo - 4)   # processing + network tick stay strictly inside the timeout

    def reply_bytes(self, k: int, data: bytes, src: tuple) -> bytes:
        if self.plan["via"] == "client":
            out = self.inner.handle(data, src, self.w.loop.time())
            return out[0][1]
        if keyed(self.plan["latseed"], "empty", k) % 4 == 0:
            return b""          # a zero-length datagram is a reply like any other
        if keyed(self.plan["latseed"], "empty", k) % 4 == 1:
            return (b"large-reply-to-attempt-%d:" % k) * 120     # ~3 kB: more than any debug hexdump cap
        return b"reply-to-attempt-%d:" % k + data[:8]

    def on_send(self, transport: Any, data: bytes) -> Optional[float]:
        """Send gate: registers attempt k when the client hands the datagram to its socket."""
        k = len(self.attempts)
        now = self.w.loop.time()
        outcome = self.plan["seq"][k] if k < len(self.plan["seq"]) else "N"
        att = {"k": k, "t": now, "src": transport._local, "data": data, "outcome": outcome, "replies": [], "arrived": None}
        self.attempts.append(att)
        self.by_port[transport._local[1]] = att
        if outcome == "B":
            # the send queue stays full for longer than this attempt lasts: nothing reaches the wire in time
            return now + self.plan["timeout"] + (1 + keyed(self.plan["latseed"], "blk", k) % 512) * TICK
        return None

    def handle(self, data: bytes, src: tuple, now: float) -> List[Tuple[int, bytes]]:
        att = self.by_port.get(src[1])
        if att is None:
            return []
        k, outcome = att["k"], att["outcome"]
        att["arrived"] = now
        sock = self.w.net.bound.get(src)
        if outcome == "R":
            l = self._lat(k)
            # the peer answers after l ticks of processing; the network adds its own (constant) tick
            att["replies"].append((now + (l + 1) * TICK, self.reply_bytes(k, data, src)))
            return [(l, att["replies"][0][1])]
        if outcome == "D":
            l1, l2 = sorted([self._lat(k, 0), self._lat(k, 1)])
            rb = self.reply_bytes(k, data, src)
            att["replies"] = [(now + (l1 + 1) * TICK, rb), (now + (l2 + 1) * TICK, rb)]
            return [(l1, rb), (l2, rb)]
        if outcome == "L":
            l = self._lat(k, late=True)
            att["replies"].append((now + l * TICK, self.reply_bytes(k, data, src)))
            return [(l, att["replies"][0][1])]
        if outcome == "I" and sock is not None:
            # what the OS reports through error_received: port unreachable is a ConnectionError, host/net unreachable and
            # "message too long" are plain OSErrors
            errs = [ConnectionRefusedError(111, "Connection refused"), OSError(113, "No route to host"),
                    OSError(101, "Network is unreachable"), OSError(90, "Message too long"),
                    TimeoutError(110, "Connection timed out")]
            self.w.loop.call_later(self._lat(k) * TICK, sock._icmp_error, errs[keyed(self.plan["latseed"], "err", k) % len(errs)])
        if outcome == "F" and sock is not None:
            self.w.loop.call_later(self._lat(k) * TICK, sock._fatal_error, OSError(101, "Network is unreachable"))
        return []          # N, B (a stale datagram flushed after the attempt ended) and the error outcomes: no reply


def execute(plan: dict) -> dict:
    from puresnmp.transport import Endpoint, send_udp
    from ipaddress import ip_address
    w0 = None
    if plan.get("other_loop_open"):
        w0 = World()
        w0.net.add_agent(("10.0.0.9", 161), RefAgent({(1, 3, 6, 1, 2, 1, 1, 1, 0): ("str", b"other")}, communities={1: {b"public"}}))
        probe = S.enc_community_msg(1, b"public", S.enc_pdu(S.mkpdu(S.PDU_GET, 1, [((1, 3, 6, 1, 2, 1, 1, 1, 0), ("null", None))])))
        w0.run(send_udp(Endpoint(ip_address("10.0.0.9"), 161), probe, timeout=1, retries=1))
    w = World(clock=plan.get("clock"))
    peer = ScriptedPeer(w, plan)
    peer_ip = "fd00::2" if plan.get("ipv6") else "10.0.0.2"
    w.net.add_agent((peer_ip, 161), peer)
    bgp = plan.get("background")
    bg: Dict[str, Any] = {"sends": [], "exc": None, "t0": None, "t_end": None}
    bg_ip = "fd00::3" if plan.get("ipv6") else "10.0.0.3"

    def gate(transport: Any, data: bytes) -> Optional[float]:
        if transport._remote is not None and transport._remote[0] != peer_ip:
            bg["sends"].append(w.loop.time())
            return None
        return peer.on_send(transport, data)
    w.net.send_gate = gate
    setup = list(plan.get("setup_ticks") or []) if not bgp else []
    n_endpoints = [0]

    def endpoint_delay() -> float:
        k = n_endpoints[0]
        n_endpoints[0] += 1
        return (setup[k] if k < len(setup) else 0) * TICK
    w.net.endpoint_delay = endpoint_delay
    retries, timeout = plan["retries"], plan["timeout"]
    request = b"\x30\x10request-payload-XYZ"
    res = exc = None
    t_end = None

    async def direct() -> Any:
        nonlocal t_end
        try:
            return await send_udp(Endpoint(ip_address(peer_ip), 161), request, timeout=timeout, retries=retries)
        finally:
            t_end = w.loop.time()

    client = None
    if plan["via"] == "client":
        client = w.client({"version": "v2c", "community": "public"}, addr=(peer_ip, 161), timeout=timeout, retries=retries)

    async def via_client() -> Any:
        nonlocal t_end
        try:
            return to_ref(await client.get(OID((1, 3, 6, 1, 2, 1, 1, 1, 0))))
        finally:
            t_end = w.loop.time()

    cancelled = False

    async def abandoned(coro: Any) -> Any:
        return await asyncio.wait_for(coro, plan["cancel_at"] * TICK)
    async def with_background(main: Any) -> Any:
        async def second_call() -> None:
            await asyncio.sleep(bgp["start_ticks"] * TICK)
            bg["t0"] = w.loop.time()
            try:
                await send_udp(Endpoint(ip_address(bg_ip), 161), b"\x30\x0abackground", timeout=bgp["timeout"], retries=bgp["retries"])
            except Exception as e:  # noqa: BLE001
                bg["exc"] = e
            bg["t_end"] = w.loop.time()
        task = asyncio.ensure_future(second_call())
        try:
            return await main
        finally:
            await task
    try:
        coro = direct() if client is None else via_client()
        if bgp:
            coro = with_background(coro)
        res = w.run(abandoned(coro) if plan.get("cancel_at") else coro)
    except asyncio.TimeoutError:
        cancelled = True        # the caller gave up: the call was cancelled wherever it happened to be
    except Exception as e:  # noqa: BLE001
        exc = e
    w.settle()
    if cancelled and "B" in plan["seq"][:len(peer.attempts)]:
        # a cancelled call closes its socket with close(): asyncio keeps a socket whose datagram is still waiting in
        # the transport buffer until the send queue drains - let it drain before looking at the socket table
        async def drain() -> None:
            await asyncio.sleep(plan["timeout"] * (plan["retries"] + 1) + 2)
        w.run(drain())
        w.settle()
    violation = None

    def fail(clause: str, d: str) -> None:
        nonlocal violation
        if violation is None:
            violation = {"clause": clause, "detail": "%s | retries=%d timeout=%s seq=%s via=%s" % (
                d, retries, timeout, plan["seq"], plan["via"])}

    atts = peer.attempts
    socks = w.net.all_sockets
    sends = [(t, data, s.sock_id) for s in socks if s._remote is None or s._remote[0] == peer_ip for (t, data) in s.sent]
    sends.sort()
    excname = type(exc).__name__ if exc else None
    if len(sends) > retries:
        fail("too-many-transmissions", "%d transmissions for retries=%d" % (len(sends), retries))
    payloads = set(d for _, d, _ in sends)
    if len(payloads) > 1:
        fail("payload-differs", "retransmissions are not identical")
    if client is None and sends and sends[0][1] != request:
        fail("payload-differs", "transmitted bytes differ from the request")
    seq = plan["seq"]
    # An OS-reported error (ICMP, fatal socket error) may be propagated or may be followed by further attempts - the
    # property does not say.  Whatever the client transmits AFTER the last error outcome is judged like the attempts of a
    # call without errors: spacing while unanswered, the first reply returned at once.
    start = 0
    for k, a in enumerate(atts):
        if a["outcome"] in "IF":
            start = k + 1
    error_seen = start > 0
    answered_at: Optional[int] = None
    for k in range(start, len(atts)):
        if atts[k]["outcome"] in "RD":
            answered_at = k
            break
    for k in range(start + 1, len(atts)):
        if atts[k - 1]["outcome"] in "NLB":
            # c2a latency is constant (1 tick), so arrival spacing equals transmission spacing
            gap = atts[k]["t"] - atts[k - 1]["t"]
            want_gap = timeout + (setup[k] if k < len(setup) else 0) * TICK
            if gap != want_gap:
                fail("retry-spacing", "attempt %d was sent %.6f s after attempt %d (timeout %s, socket setup %.6f s)" % (
                    k + 1, gap, k, timeout, want_gap - timeout))
    if cancelled:
        pass        # no result to judge: only the transmission bound, payload identity and the socket clause apply
    elif not error_seen or answered_at is not None:
        if answered_at is not None:
            a = atts[answered_at]
            t_reply, rb = a["replies"][0]
            if exc is not None:
                fail("reply-not-returned", "attempt %d was answered in time but the call raised %s: %s" % (
                    answered_at + 1, excname, exc))
            else:
                want = rb if client is None else ("str", b"descr")
                if res != want:
                    fail("wrong-bytes", "returned %r, first reply was %r" % (res, want))
                if t_end != t_reply:
                    fail("return-instant", "returned at t=%.6f, first reply delivered at t=%.6f" % (t_end, t_reply))
                if len(sends) != answered_at + 1:
                    fail("transmissions-after-reply", "%d transmissions, reply came to attempt %d" % (len(sends), answered_at + 1))
        else:
            if excname != "Timeout":
                fail("no-timeout", "%d unanswered attempts ended with %s %r instead of Timeout" % (len(atts), excname, res))
            else:
                if len(sends) != retries:
                    fail("wrong-attempt-count", "Timeout after %d transmissions (retries=%d)" % (len(sends), retries))
                want_end = retries * timeout + sum(setup[:retries]) * TICK
                if t_end != want_end:
                    fail("timeout-instant", "Timeout raised at t=%.6f, expected %s" % (t_end, want_end))
    if bgp:
        # the concurrent call to the silent peer: exactly its own budget, its own timing
        gaps = [b - a for a, b in zip(bg["sends"], bg["sends"][1:])]
        if type(bg["exc"]).__name__ != "Timeout" or len(bg["sends"]) != bgp["retries"] or \
                any(g != bgp["timeout"] for g in gaps) or bg["t_end"] - bg["t0"] != bgp["retries"] * bgp["timeout"]:
            fail("concurrent-call-disturbed", "a second call (retries=%d timeout=%s, never answered) running at the same time "
                 "ended with %s after %d transmissions (gaps %s) and %.6f s" % (
                     bgp["retries"], bgp["timeout"], type(bg["exc"]).__name__ if bg["exc"] else "a result", len(bg["sends"]),
                     gaps, (bg["t_end"] or 0) - (bg["t0"] or 0)))
    # replies never cross sockets: each datagram delivered to a client socket answers that socket's own port
    # (guaranteed by addressing in the simulated network; checked through the open-port log)
    open_after = w.net.open_sockets()
    if open_after:
        fail("socket-left-open", "%d socket(s) still open after the call ended with %s: ids %s" % (
            len(open_after), excname or "a result", open_after))
    probes = {
        "timeout_raised": int(excname == "Timeout"), "late_reply_dropped": int("L" in seq[:len(atts)]),
        "duplicate_reply": int("D" in seq[:len(atts)]), "icmp_error": int("I" in seq[:len(atts)]),
        "fatal_error": int("F" in seq[:len(atts)]),
        "reply_on_last_attempt": int(answered_at is not None and answered_at == retries - 1),
        "via_client_get": int(client is not None), "error_then_retry_or_raise": int(error_seen),
        "wall_clock_jumps": int(plan.get("clock", {}).get("mode") == "jumping"),
        "send_blocked": int("B" in seq[:len(atts)]), "slow_socket_setup": int(any(setup[:max(1, len(atts))])),
        "second_call_in_flight_at_the_same_time": int(bool(bgp)),
        "ipv6_peer": int(bool(plan.get("ipv6"))), "another_loop_used_before_and_still_open": int(bool(plan.get("other_loop_open"))), "cancelled_by_caller": int(cancelled),
        "reply_over_1024_octets": int(answered_at is not None and len(atts[answered_at]["replies"][0][1]) > 1024),
        "empty_reply": int(answered_at is not None and atts[answered_at]["replies"][0][1] == b""),
    }
    counters = dict(w.net.counters)
    counters["fault_no_reply"] = sum(1 for a in atts if a["outcome"] == "N")
    counters["fault_late_reply"] = sum(1 for a in atts if a["outcome"] == "L")
    counters["fault_dup_reply"] = sum(1 for a in atts if a["outcome"] == "D")
    counters["fault_icmp"] = sum(1 for a in atts if a["outcome"] == "I")
    counters["fault_fatal"] = sum(1 for a in atts if a["outcome"] == "F")
    counters["fault_send_queue_full"] = sum(1 for a in atts if a["outcome"] == "B")
    for kk, v in probes.items():
        counters["probe_" + kk] = v
    out = {
        "violation": violation, "digest": w.net.digest(), "triggers": [], "counters": counters,
        "shape": repr((retries, seq, timeout, plan["latseed"], plan["via"])),
        "nontrivial": True, "sim_s": w.loop.time(), "exchanges": len(atts),
        "summary": "retries=%d seq=%s timeout=%s via=%s -> %s at t=%s, %d sends" % (
            retries, seq, timeout, plan["via"], excname or "ok", t_end, len(sends)),
    }
    w.close()
    if w0 is not None:
        w0.close()
    return out


def simplify(plan: dict):
    if plan.get("other_loop_open"):
        p = dict(plan); p["other_loop_open"] = False; yield p
    if plan.get("background"):
        p = dict(plan); p["background"] = None; yield p
    if plan["via"] == "client":
        p = dict(plan); p["via"] = "send_udp"; yield p
    if plan["retries"] > 1:
        # drop one attempt outcome
        for k in range(len(plan["seq"])):
            p = dict(plan); p["seq"] = plan["seq"][:k] + plan["seq"][k + 1:]; p["retries"] = plan["retries"] - 1; yield p
    if plan["timeout"] != 1:
        p = dict(plan); p["timeout"] = 1; yield p
    if plan.get("cancel_at"):
        p = dict(plan); p["cancel_at"] = None; yield p
    if plan.get("ipv6"):
        p = dict(plan); p["ipv6"] = False; yield p
    if any(plan.get("setup_ticks") or []):
        p = dict(plan); p["setup_ticks"] = [0] * len(plan["setup_ticks"]); yield p
    if plan.get("clock", {}).get("mode") == "jumping":
        p = dict(plan); p["clock"] = {"mode": "tied", "epoch": 1_700_000_000}; yield p


def describe(plan: dict) -> str:
    names = {"R": "reply", "N": "no-reply", "L": "late-reply", "D": "two-replies", "I": "icmp", "F": "fatal",
             "B": "send-queue-full"}
    return "retries=%d timeout=%s via=%s attempts: %s" % (plan["retries"], plan["timeout"], plan["via"],
                                                            ", ".join(names[c] for c in plan["seq"]))
