"""C02 - bulk walk returns exactly what the GETNEXT walk returns."""
from __future__ import annotations

import hashlib
from typing import Any, List

from .. import gen
from .. import refsnmp as S
from ..loop import keyed
from ..runner import rng_for
from ..world import OID, PyWrapper, collect, gen_proto, oid_t, to_ref
from . import c01

ID = "C02"
LEVEL = "exploration"
RULE = ("Seeded plans as C01 plus bulk size 1..60 (1, 2, subtree size +-1, > MIB size favoured) and a per-response "
        "GETBULK truncation policy drawn from {full, fewer repetitions, partial last row, stop after all-endOfMibView "
        "row}; Client.bulkwalk / PyWrapper.bulkwalk compared with the MIB-derived set and with a twin Client.multiwalk "
        "run of the same plan. Non-trivial: completed bulk walk with >=1 expected instance or >=2 roots; distinct = "
        "distinct (entry point, protocol level, bulk size, subtree sizes, policies used, faults fired, outcome).")
ASSUMPTIONS = list(c01.ASSUMPTIONS) + [
    "the agent's GETBULK truncation policies are the conformant ones of RFC 3416 4.2.3 (any prefix that keeps the "
    "non-repeaters and at least one repetition binding)"]
PROBES = ["earlier_overlapping_bulkwalk", "dup_oid_in_response", "partial_last_row", "response_ends_in_eom", "column_exhausted_while_other_continues",
          "bulk_size_1", "policy_fewer", "policy_stop_eom", "empty_subtree_root", "three_roots"]
shrink_lists = [("roots",), ("mib",), ("faults", "explicit")]
POLICIES = ["full", "fewer", "partial", "stop_eom"]


def total(tier: str) -> int:
    return 3000 if tier == "quick" else 100000


def plan_for(tier: str, seed: int, i: int) -> dict:
    rng = rng_for(seed, ID, tier, i)
    mib, roots, info = gen.gen_walk_world(rng)
    sizes = [s for s in info["sizes"] if s] or [1]
    r = rng.random()
    if r < 0.25:
        bulk = rng.choice([1, 2])
    elif r < 0.55:
        bulk = max(1, rng.choice(sizes) + rng.choice([-1, 0, 1]))
    elif r < 0.7:
        bulk = len(mib) + rng.randrange(1, 5)
    else:
        bulk = rng.randrange(1, 61)
    lossy = rng.random() < 0.2
    # an earlier bulk walk on the same client (same bulk size, same agent policy) of a sub-tree of a root or of the parent
    # of a root: nothing remembered from it may change the walk under test
    prng = rng_for(seed, ID, tier + ":pre", i)
    pre_roots: List[tuple] = []
    if prng.random() < 0.3:
        keys = [o for o, _ in mib]
        below = [o for o in keys if any(len(o) > len(r) + 1 and o[:len(r)] == r for r in roots)]
        if below and prng.random() < 0.7:
            pre_roots = [prng.choice(below)[:-1]]
        elif roots:
            pre_roots = [roots[0][:-1]]
    return {
        "prop": ID, "pre_roots": pre_roots, "proto": gen_proto(rng), "mib": mib, "roots": roots,
        "api": rng.choice(["bulkwalk", "bulkwalk", "pybulkwalk"]), "bulk": bulk,
        "policies": rng.sample(POLICIES, rng.randrange(1, 5)), "polseed": rng.getrandbits(40),
        "faults": gen.gen_faults(rng, lossy), "lossy": lossy,
        "clock": gen.gen_clock(rng), "timeout": 2, "retries": rng.choice([2, 3, 5]),
    }


def valid(plan: dict) -> bool:
    roots = plan["roots"]
    if not roots or plan.get("bulk", 1) < 1:
        return False
    for a in roots:
        for b in roots:
            if a is not b and a[:len(b)] == b:
                return False
    return True


def simplify(plan: dict):
    if plan["proto"]["version"] == "v3":
        p = dict(plan)
        p["proto"] = {"version": "v2c", "community": "public"}
        yield p
    if plan["api"] == "pybulkwalk":
        p = dict(plan)
        p["api"] = "bulkwalk"
        yield p
    if plan.get("pre_roots"):
        p = dict(plan)
        p["pre_roots"] = []
        yield p
    if plan["policies"] != ["full"]:
        p = dict(plan)
        p["policies"] = ["full"]
        yield p
        for pol in plan["policies"]:
            if len(plan["policies"]) > 1:
                p = dict(plan)
                p["policies"] = [pol]
                yield p
    for b in (1, 2, plan["bulk"] // 2, plan["bulk"] - 1):
        if 1 <= b < plan["bulk"]:
            p = dict(plan)
            p["bulk"] = b
            yield p
    if any(v != ("int", 1) for _, v in plan["mib"]):
        p = dict(plan)
        p["mib"] = [(o, ("int", 1)) for o, _ in plan["mib"]]
        yield p


async def _walker(client: Any, api: str, roots: List[tuple], bulk: int = 10) -> List[tuple]:
    if api == "bulkwalk":
        res = await collect(client.bulkwalk([OID(r) for r in roots], bulk_size=bulk))
        return [(oid_t(vb.oid), to_ref(vb.value)) for vb in res]
    if api == "pybulkwalk":
        res = await collect(PyWrapper(client).bulkwalk([S.oid_str(r) for r in roots], bulk_size=bulk))
        return [(S.oid_tuple(vb.oid), ("py", vb.value)) for vb in res]
    return await c01._do_walk(client, api, roots)


def execute(plan: dict) -> dict:
    roots = [tuple(r) for r in plan["roots"]]
    plan = dict(plan)
    plan["mib"] = [(tuple(o), tuple(v) if isinstance(v, list) else v) for o, v in plan["mib"]]
    bulk = plan["bulk"]
    used = {}
    agents = []

    def install(w: Any, agent: Any) -> None:
        agents.append(agent)

        def policy(req: dict) -> tuple:
            pol = plan["policies"][keyed(plan["polseed"], "pol", req["n"]) % len(plan["policies"])]
            used[pol] = used.get(pol, 0) + 1
            return (pol, 1 + keyed(plan["polseed"], "k", req["n"]) % max(1, bulk))
        agent.bulk_policy = policy

    async def walker(client: Any, api: str, rts: List[tuple]) -> List[tuple]:
        return await _walker(client, api, rts, bulk)

    first = c01.run_walk(plan, roots, walker=walker, extra=install)
    agent = agents[0]
    violation = first["violation"]
    # clauses specific to bulk requests
    dup_in_resp = partial = ends_eom = col_exh = False
    for r in agent.requests:
        if r["verdict"] != "ok" or not r["pdu"] or r["pdu"]["tag"] != S.PDU_BULK:
            continue
        pdu = r["pdu"]
        if violation is None and (pdu["es"] != 0 or pdu["ei"] != bulk):
            violation = {"clause": "bulk-parameters",
                         "detail": "GETBULK with non-repeaters=%d max-repetitions=%d, expected 0/%d" % (
                             pdu["es"], pdu["ei"], bulk)}
        resp = r["resp_pdu"]["vbs"]
        oids = [o for o, v in resp if v[0] != "eom"]
        if len(oids) != len(set(oids)):
            dup_in_resp = True
        n = len(pdu["vbs"])
        if n and len(resp) % n:
            partial = True
        if resp and resp[-1][1][0] == "eom":
            ends_eom = True
        if n > 1 and resp:
            kinds = [v[0] for _, v in resp]
            if "eom" in kinds and any(k != "eom" for k in kinds):
                col_exh = True
    twin = None
    exchanges = first["exchanges"]
    sim_s = first["sim_s"]
    digests = [first["digest"]]
    if violation is None and first["exc"] is None and not plan.get("lossy"):
        tplan = dict(plan)
        tplan["api"] = "multiwalk"
        twin = c01.run_walk(tplan, roots)
        digests.append(twin["digest"])
        exchanges += twin["exchanges"]
        sim_s += twin["sim_s"]
        if twin["violation"] is None and twin["exc"] is None and twin["result"] != first["result"]:
            a, b = set(first["result"]), set(twin["result"])
            violation = {"clause": "differs-from-getnext-walk",
                         "detail": "bulk-only=%s getnext-only=%s" % (
                             [S.oid_str(o) for o in sorted(a - b)][:5], [S.oid_str(o) for o in sorted(b - a)][:5])}
    mibkeys = [o for o, _ in plan["mib"]]
    sizes = [sum(1 for o in mibkeys if len(o) > len(r) and o[:len(r)] == r) for r in roots]
    probes = {
        "dup_oid_in_response": int(dup_in_resp), "partial_last_row": int(partial),
        "response_ends_in_eom": int(ends_eom), "column_exhausted_while_other_continues": int(col_exh),
        "bulk_size_1": int(bulk == 1), "earlier_overlapping_bulkwalk": int(bool(plan.get("pre_roots"))), "policy_fewer": int(used.get("fewer", 0) > 0),
        "policy_stop_eom": int(used.get("stop_eom", 0) > 0),
        "empty_subtree_root": int(any(s == 0 for s in sizes)), "three_roots": int(len(roots) >= 3),
    }
    counters = dict(first["counters"])
    for k, v in probes.items():
        counters["probe_" + k] = v
    triggers = []
    if first["eom_before_value"]:
        triggers.append("C02-eom-before-value")
    if dup_in_resp:
        triggers.append("C02-dup-oid-in-response")
    if partial:
        triggers.append("C02-partial-row")
    level = plan["proto"].get("level", "") if plan["proto"]["version"] == "v3" else ""
    shape = repr((plan["api"], plan["proto"]["version"], level, bulk, sizes, sorted(used),
                  sorted(set(f[2] for f in first["fired"])), first["exc"]))
    return {
        "violation": violation, "digest": hashlib.sha256("".join(digests).encode()).hexdigest(),
        "fired": first["fired"], "triggers": triggers, "counters": counters, "shape": shape,
        "nontrivial": first["exc"] is None and (first["n_expected"] >= 1 or len(roots) >= 2),
        "sim_s": sim_s, "exchanges": exchanges,
        "summary": "%s bulk=%d roots=%d expected=%d exc=%s" % (plan["api"], bulk, len(roots),
                                                                first["n_expected"], first["exc"]),
    }


def describe(plan: dict) -> str:
    return "bulk=%d policies=%s\n%s" % (plan["bulk"], plan["policies"], c01.describe(plan))
