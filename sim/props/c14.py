"""C14 - concurrent operations on a shared client do not disturb one another."""
from __future__ import annotations

import asyncio
import hashlib
import math
from typing import Any, Dict, List, Optional, Tuple

from .. import gen, scen
from .. import refsnmp as S
from ..loop import OP_TAG, keyed
from ..runner import rng_for
from ..world import PASSWORDS, World, agent_for, agent_user, make_credentials

ID = "C14"
LEVEL = "exploration"
RULE = ("Seeded plans: 2-6 operations from {get, multiget, getnext, multigetnext, bulkget, set, multiset, walk, multiwalk, "
        "bulkwalk, table, bulktable} (walks and tables over overlapping subtrees) started together "
        "(asyncio.gather) on one shared client or on 2-3 clients (different agents, credentials, databases) on one loop; v2c "
        "and v3 authPriv (fresh client, so engine discovery is concurrent too); the wall clock is tied to virtual time or advances "
        "on every reading (concurrent requests then carry different ids); in some groups one operation is abandoned by its "
        "caller (asyncio.wait_for) while the others go on; SET targets are disjoint from everything else. "
        "The schedule is the latency of each response datagram, keyed by (operation, exchange number): for groups of "
        "single-exchange operations the run index is decoded as a Lehmer code, so consecutive indices cover ALL k! answer "
        "orders (k<=5); groups containing walks are sampled; a lossy configuration adds drop/dup/late replies and "
        "retransmission. Oracle: every operation's outcome equals the outcome of a solo twin run of the same plan; each agent "
        "saw only its own client's credentials; the clients' configuration is unchanged afterwards and every sender call "
        "carried it; under v3 no request was rejected (all usmStats but unknownEngineIDs stay 0). "
        "Distinct interleavings = distinct sequences of (event kind, operation, exchange) in the network event log.")
ASSUMPTIONS = [
    "task wake-up order is decided solely by when the network delivers which datagram (asyncio's FIFO ready queue is kept "
    "as asyncio guarantees it), so every explored interleaving is one a real network could produce",
    "lossy configuration: an operation may end in Timeout instead of its solo result, never in a different result",
]
PROBES = ["shared_client", "multi_client", "v3_concurrent_discovery", "complete_permutation_group", "contains_walk",
          "same_request_id_in_flight", "lossy", "lossy_timeout", "set_in_group", "six_ops", "overlapping_walks", "distinct_request_ids_in_flight", "operation_abandoned_by_caller",
          "temporary_reconfiguration_in_group", "devices_share_engine_id_differ_in_boots"]
shrink_lists = [("ops",)]
BASE = (1, 3, 6, 1, 2, 1, 7)
#: SET targets lie before every object any operation reads: GETNEXT/GETBULK only move forward, so no read can ever reach them
SETBASE = (1, 3, 6, 1, 2, 1, 1, 0)
SINGLE = ["get", "multiget", "getnext", "set", "multigetnext", "bulkget", "multiset"]
MULTI = ["walk", "bulkwalk", "table", "multiwalk", "bulktable"]


def total(tier: str) -> int:
    return 3000 if tier == "quick" else 120000


def _mib(rng: Any, salt: int) -> List[tuple]:
    mib = {}
    for c in (1, 2, 3):
        for r in range(1, rng.randrange(2, 6)):
            mib[BASE + (1, c, r)] = ("int", salt * 1000 + c * 10 + r) if rng.random() < 0.6 else \
                ("str", b"v%d-%d-%d" % (salt, c, r))
    mib[(1, 3, 6, 1, 2, 1, 1, 1, 0)] = ("str", b"agent-%d" % salt)
    return sorted(mib.items())


def _gen_op(rng: Any, kind: str, keys: List[tuple], k: int) -> dict:
    if kind == "get":
        return {"op": "get", "oid": rng.choice(keys)}
    if kind == "multiget":
        return {"op": "multiget", "oids": [rng.choice(keys) for _ in range(rng.randrange(1, 4))]}
    if kind == "getnext":
        return {"op": "getnext", "oid": rng.choice(keys[:-1]) if len(keys) > 1 else BASE}
    if kind == "set":
        return {"op": "set", "oid": SETBASE + (k, 0), "val": ("int", 100 + k)}   # disjoint from every read
    if kind == "multigetnext":
        return {"op": "multigetnext", "oids": [rng.choice(keys[:-1] or keys) for _ in range(rng.randrange(1, 4))]}
    if kind == "bulkget":
        return {"op": "bulkget", "scalars": [rng.choice(keys[:-1] or keys)], "repeaters": [BASE + (1, rng.choice([1, 2, 3]))],
                "maxrep": rng.choice([1, 2, 4])}
    if kind == "multiset":
        return {"op": "multiset", "items": [(SETBASE + (k, 1), ("int", 200 + k)), (SETBASE + (k, 2), ("str", b"ms-%d" % k))]}
    if kind == "multiwalk":
        return {"op": "multiwalk", "roots": [BASE + (1, c) for c in rng.sample([1, 2, 3], 2)]}
    if kind == "bulktable":
        return {"op": "bulktable", "oid": BASE, "bulk": rng.choice([1, 3, 10])}
    if kind == "walk":
        return {"op": "walk", "root": BASE + (1, rng.choice([1, 2, 3]))}
    if kind == "bulkwalk":
        return {"op": "bulkwalk", "roots": [BASE + (1, c) for c in rng.sample([1, 2, 3], rng.randrange(1, 3))],
                "bulk": rng.choice([1, 2, 5])}
    return {"op": "table", "oid": BASE + (1,)}


def plan_for(tier: str, seed: int, i: int) -> dict:
    # groups of consecutive indices share everything but the answer order
    group, member = divmod(i, 24)
    rng = rng_for(seed, ID, tier, group)
    n_clients = rng.choice([1, 1, 1, 2, 3])
    v3 = rng.random() < 0.45
    clients = []
    for c in range(n_clients):
        if v3:
            proto = {"version": "v3", "user": "user%d" % c, "level": 3, "auth": rng.choice(["md5", "sha1"]),
                     "auth_pass": PASSWORDS[c % 2], "priv": rng.choice(["verifstream", "verifstream2"]),
                     "priv_pass": PASSWORDS[(c + 1) % 2]}
        else:
            proto = {"version": "v2c", "community": "comm-%d" % c}
        clients.append({"proto": proto, "mib": _mib(rng, c), "addr": ("10.0.0.%d" % (2 + c), 161)})
    # the devices behind different clients are different engines: own boots/time, usually own engine ids (cloned devices
    # may share one) - nothing a client learns about one device may leak into its dealings with another
    arng = rng_for(seed, ID, tier + ":a", group)
    same_engine = arng.random() < 0.4
    for c, cl in enumerate(clients):
        cl["engine"] = {"id": b"\x80\x00\x1f\x88\x80verif" if same_engine else b"\x80\x00\x1f\x88\x80dev-%d" % c,
                        "boots": arng.choice([1, 1 + c, 7 * (c + 1)]), "time0": arng.choice([1000, 1000 + 5000 * c, 10 ** 6 * (c + 1)])}
    all_single = rng.random() < 0.55
    k = rng.randrange(2, 5) if all_single else rng.randrange(2, 7)
    ops = []
    for j in range(k):
        ci = rng.randrange(n_clients)
        keys = [o for o, _ in clients[ci]["mib"]]
        kind = rng.choice(SINGLE) if all_single else rng.choice(SINGLE + MULTI + MULTI)
        ops.append({"client": ci, "op": _gen_op(rng, kind, keys, j)})
    lossy = (not all_single) and rng.random() < 0.3
    perm_index = member % math.factorial(k) if all_single else None
    mrng = rng_for(seed, ID, tier + ":m", i)
    # environment knobs drawn after everything else (so that the groups above keep their operations):
    # - the wall clock advances on every reading in a third of the groups: concurrent requests then carry DIFFERENT ids
    # - in a fifth of the sampled groups one operation is abandoned by its caller (asyncio.wait_for with a short deadline)
    erng = rng_for(seed, ID, tier + ":e", group)
    clock_mode = erng.choice(["tied", "tied", "stepping"])
    cancel = None
    if not all_single and erng.random() < 0.2:
        # (half of the time it is the FIRST operation - the one that gets to start a fresh v3 client's engine discovery)
        cancel = {"op": 0 if erng.random() < 0.5 else erng.randrange(k), "after_ticks": erng.choice([1, 3, 10, 50, 300])}
    # - in a quarter of the single-exchange groups the LAST operation runs under a temporary reconfiguration (other
    #   credentials of the same family) that is entered after every other operation has sent its request and left before
    #   any of them is answered: nothing of it may be visible to the others.  The clients are warmed up first (discovery done).
    reconf = None
    if all_single and erng.random() < 0.25:
        ci = ops[-1]["client"]
        base = clients[ci]["proto"]
        if base["version"] == "v3":
            alt = {"version": "v3", "user": erng.choice(["guest", base["user"]]), "level": 0}
            if alt["user"] == base["user"]:
                alt = {"version": "v3", "user": "operator", "level": 1, "auth": "md5", "auth_pass": PASSWORDS[3]}
                if erng.random() < 0.5:
                    alt = {"version": "v3", "user": "operator", "level": 3, "auth": "sha1" if base["auth"] == "md5" else "md5",
                           "auth_pass": PASSWORDS[3], "priv": "verifstream2" if base["priv"] == "verifstream" else "verifstream",
                           "priv_pass": PASSWORDS[2]}
        else:
            alt = {"version": "v2c", "community": "rw-" + base["community"]}
        keys = [o for o, _ in clients[ci]["mib"]]
        # the reconfigured operation may itself fail (an absent object): the block is then left by an exception
        target = erng.choice(keys) if erng.random() < 0.7 else BASE + (5, 5, 0)
        ops[-1] = {"client": ci, "op": {"op": "get", "oid": target}, "reconf": alt}
        reconf = {"op": k - 1}
    return {"prop": ID, "clients": clients, "ops": ops, "perm_index": perm_index, "latseed": mrng.getrandbits(40),
            "clock_mode": clock_mode, "cancel": cancel, "reconf": reconf,
            "complete": bool(all_single and math.factorial(k) <= 24),
            "faults": gen.gen_faults(mrng, lossy, timeout=3), "lossy": lossy, "epoch": rng.choice([1000, 1_700_000_000])}


def valid(plan: dict) -> bool:
    return len(plan["ops"]) >= 1


def simplify(plan: dict):
    if plan.get("cancel"):
        p = dict(plan); p["cancel"] = None; yield p
    if plan.get("reconf"):
        p = dict(plan); p["reconf"] = None
        p["ops"] = [{k2: v for k2, v in o.items() if k2 != "reconf"} for o in plan["ops"]]; yield p
    if plan.get("clock_mode") == "stepping":
        p = dict(plan); p["clock_mode"] = "tied"; yield p
    if plan["perm_index"] is not None and plan["perm_index"] != 0:
        p = dict(plan); p["perm_index"] = 0; yield p
    for c in plan["clients"]:
        if c["proto"]["version"] == "v3":
            p = dict(plan)
            p["clients"] = [dict(cl, proto={"version": "v2c", "community": "comm-%d" % n}) for n, cl in enumerate(plan["clients"])]
            yield p
            break


def _lehmer(index: int, k: int) -> List[int]:
    items = list(range(k))
    perm = []
    for pos in range(k, 0, -1):
        f = math.factorial(pos - 1)
        q, index = divmod(index, f)
        perm.append(items.pop(q % len(items)))
    return perm


def _run(plan: dict, only: Optional[int]) -> dict:
    w = World(faults=plan["faults"] if only is None else None,
              clock={"mode": plan.get("clock_mode", "tied"), "epoch": plan["epoch"], "step": 1})
    agents = []
    clients = []
    reconf_i = (plan.get("reconf") or {}).get("op")
    for ci0, c in enumerate(plan["clients"]):
        eng = c.get("engine")
        ag = agent_for(c["proto"], dict(c["mib"]), **({"engine_id": eng["id"], "boots": eng["boots"], "time0": eng["time0"]}
                                                       if eng and c["proto"]["version"] == "v3" else {}))
        for item in plan["ops"]:
            alt = item.get("reconf")
            if alt and item["client"] == ci0:
                if alt["version"] == "v3":
                    u = agent_user(alt)
                    ag.users[u.name] = u
                else:
                    ag.communities[1].add(alt["community"].encode())
        w.add_agent(ag, tuple(c["addr"]))
        agents.append(ag)
        clients.append(w.client(c["proto"], addr=tuple(c["addr"]), timeout=3, retries=3 if plan["lossy"] else 1))
    k = len(plan["ops"])
    rank: Dict[int, int] = {}
    if plan["perm_index"] is not None:
        for pos, opi in enumerate(_lehmer(plan["perm_index"], k)):
            rank[opi] = pos

    def tag_latency(direction: str, tag: tuple) -> Optional[int]:
        opi, n = tag
        if direction == "c2a" or isinstance(opi, tuple):
            return 1
        if reconf_i is not None and opi == reconf_i:
            return 1                    # the reconfigured exchange is over before any other operation is answered
        if rank and only is None:
            # single-exchange groups: the data exchange is the last socket the operation opens;
            # answer order = the permutation; discovery answers come first in a seeded order
            return 8 * (rank[opi] + 1) + (0 if _is_last_exchange(plan, opi, n) else -4)
        return 1 + keyed(plan["latseed"], "lat", opi, n) % 200

    w.net.tag_latency = tag_latency
    results: Dict[int, Any] = {}

    cancel = plan.get("cancel") if only is None else None

    async def runop(j: int) -> None:
        OP_TAG.set(j)
        item = plan["ops"][j]
        coro = scen.do_op(clients[item["client"]], item["op"])
        if item.get("reconf"):
            async def under_reconfigure(cl: Any = clients[item["client"]], alt: dict = item["reconf"], op: dict = item["op"]) -> Any:
                with cl.reconfigure(credentials=make_credentials(alt)):
                    return await scen.do_op(cl, op)
            coro.close()
            coro = under_reconfigure()
        try:
            if cancel and cancel["op"] == j:
                # the caller gives up on this operation: it is cancelled wherever it happens to be
                results[j] = ("ok", await asyncio.wait_for(coro, cancel["after_ticks"] / 1024.0))
            else:
                results[j] = ("ok", await coro)
        except asyncio.TimeoutError:
            results[j] = ("abandoned",)
        except asyncio.CancelledError:
            # nobody cancelled THIS operation (the abandoned one ends in TimeoutError above): an outcome to be judged
            results[j] = ("exc", "CancelledError", "cancelled although its caller never gave up")
        except Exception as e:  # noqa: BLE001
            results[j] = ("exc", type(e).__name__, str(e)[:120])

    async def main() -> None:
        if plan.get("reconf"):
            for ci1, cl in enumerate(clients):      # warm-up: engine discovery is done before the group starts
                OP_TAG.set(("warm", ci1))
                await cl.get(scen.OID(plan["clients"][ci1]["mib"][0][0]))
        idx = [only] if only is not None else list(range(k))
        await asyncio.gather(*[asyncio.ensure_future(runop(j)) for j in idx])

    cfg_before = [(c.config.timeout, c.config.retries, repr(c.config.credentials), c.config.context) for c in clients]
    w.run(main())
    w.settle()
    cfg_after = [(c.config.timeout, c.config.retries, repr(c.config.credentials), c.config.context) for c in clients]
    cfg_leak = [ci for ci, (a, b) in enumerate(zip(cfg_before, cfg_after)) if a != b]
    bad_calls = [(ci, call["timeout"], call["retries"]) for ci, c in enumerate(clients)
                 for call in c._verif_recorder.calls if (call["timeout"], call["retries"]) != cfg_before[ci][:2]]
    inter = hashlib.sha256(repr([(e[2], e[-1]) for e in w.net.events if e[2] == "tag"]).encode()).hexdigest()[:16]
    rids_in_flight = _same_rid_in_flight(agents)
    out = {"results": results, "digest": w.net.digest(), "interleaving": inter, "agents": agents,
           "sim_s": w.loop.time(), "exchanges": sum(a.exchanges for a in agents), "counters": dict(w.net.counters),
           "fired": list(w.net.fired), "same_rid": rids_in_flight, "open": w.net.open_sockets(),
           "cfg_leak": cfg_leak, "bad_calls": bad_calls}
    w.close()
    return out


def _is_last_exchange(plan: dict, opi: int, n: int) -> bool:
    v3 = plan["clients"][plan["ops"][opi]["client"]]["proto"]["version"] == "v3"
    return n >= 1 or not v3


def _same_rid_in_flight(agents: List[Any]) -> bool:
    for a in agents:
        seen: Dict[int, float] = {}
        for r in a.requests:
            if r["pdu"] is None:
                continue
            rid = r["pdu"]["rid"]
            if rid in seen and abs(seen[rid] - r["t"]) < 0.5:
                return True
            seen[rid] = r["t"]
    return False


def execute(plan: dict) -> dict:
    conc = _run(plan, None)
    violation = None

    def fail(clause: str, d: str) -> None:
        nonlocal violation
        if violation is None:
            violation = {"clause": clause, "detail": d}

    digests = [conc["digest"]]
    exchanges, sim_s = conc["exchanges"], conc["sim_s"]
    lossy_timeout = 0
    for j, item in enumerate(plan["ops"]):
        solo = _run(plan, j)
        digests.append(solo["digest"])
        exchanges += solo["exchanges"]
        sim_s += solo["sim_s"]
        a, b = conc["results"].get(j), solo["results"].get(j)
        if a == b:
            continue
        if a is not None and a[0] == "abandoned":
            continue            # abandoned by its caller: it has no result to compare; the OTHER operations must not notice
        if plan["lossy"] and a is not None and a[0] == "exc" and a[1] == "Timeout":
            lossy_timeout = 1
            continue
        fail("differs-from-solo", "operation #%d %s on client %d: concurrent outcome %r, alone %r" % (
            j, item["op"]["op"], item["client"], str(a)[:200], str(b)[:200]))
    for ci, ag in enumerate(conc["agents"]):
        proto = plan["clients"][ci]["proto"]
        for r in ag.requests:
            if r["verdict"] in ("bad_community", "malformed") or r["verdict"].startswith("report:") and not r.get("discovery"):
                fail("foreign-or-rejected-request", "agent %d: request #%d verdict %s" % (ci, r["n"], r["verdict"]))
            alts = [it["reconf"]["user"].encode() for it in plan["ops"] if it.get("reconf") and it["client"] == ci
                    and it["reconf"]["version"] == "v3"]
            if proto["version"] == "v3" and r.get("user") not in [None, proto["user"].encode()] + alts:
                fail("foreign-or-rejected-request", "agent %d saw user %r" % (ci, r.get("user")))
        bad = {k: v for k, v in ag.stats.items() if v and k != "unknown_engine"}
        if bad and not plan["lossy"]:
            fail("usm-stats", "agent %d counters %r" % (ci, bad))
    if conc["open"]:
        fail("socket-left-open", "sockets %s still open" % conc["open"])
    if conc["cfg_leak"]:
        fail("client-state-changed", "client %s: configuration after the concurrent group differs from before" % conc["cfg_leak"])
    if conc["bad_calls"]:
        fail("client-state-changed", "sender saw (client, timeout, retries) %s, which is not the client's configuration" % (
            conc["bad_calls"][:3],))
    kinds = [o["op"]["op"] for o in plan["ops"]]
    v3 = plan["clients"][0]["proto"]["version"] == "v3"
    ndisco = sum(1 for ag in conc["agents"] for r in ag.requests if r.get("discovery"))
    probes = {
        "shared_client": int(len(plan["clients"]) == 1), "multi_client": int(len(plan["clients"]) > 1),
        "v3_concurrent_discovery": int(v3 and ndisco > len(plan["clients"])),
        "complete_permutation_group": int(plan["complete"]),
        "contains_walk": int(any(k in MULTI for k in kinds)),
        "overlapping_walks": int(sum(1 for k in kinds if k in MULTI) >= 2), "same_request_id_in_flight": int(conc["same_rid"]),
        "lossy": int(plan["lossy"]), "lossy_timeout": lossy_timeout, "set_in_group": int("set" in kinds or "multiset" in kinds),
        "six_ops": int(len(kinds) == 6), "temporary_reconfiguration_in_group": int(bool(plan.get("reconf"))),
        "devices_share_engine_id_differ_in_boots": int(v3 and len(plan["clients"]) > 1
                                                       and len(set(c.get("engine", {}).get("id") for c in plan["clients"])) == 1
                                                       and len(set((c.get("engine", {}).get("boots"), c.get("engine", {}).get("time0"))
                                                                   for c in plan["clients"])) > 1),
        "distinct_request_ids_in_flight": int(plan.get("clock_mode") == "stepping"),
        "operation_abandoned_by_caller": int(any(r[0] == "abandoned" for r in conc["results"].values())),
    }
    counters = dict(conc["counters"])
    counters["discoveries"] = ndisco
    for kk, v in probes.items():
        counters["probe_" + kk] = v
    return {
        "violation": violation, "digest": hashlib.sha256("".join(digests).encode()).hexdigest(), "triggers": [],
        "fired": conc["fired"], "counters": counters, "interleaving": conc["interleaving"],
        "shape": conc["interleaving"], "nontrivial": len(plan["ops"]) >= 2, "sim_s": sim_s, "exchanges": exchanges,
        "summary": "%d clients %s ops=%s perm=%s lossy=%s" % (len(plan["clients"]), "v3" if v3 else "v2c", kinds,
                                                              plan["perm_index"], plan["lossy"]),
    }


def describe(plan: dict) -> str:
    return "clients=%s\nops=%s\nperm_index=%s lossy=%s faults=%s" % (
        [{k: v for k, v in c["proto"].items() if "pass" not in k} for c in plan["clients"]],
        [(o["client"], o["op"]) for o in plan["ops"]], plan["perm_index"], plan["lossy"],
        plan["faults"].get("explicit") or plan["faults"].get("rates"))
