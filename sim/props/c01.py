"""C01 - walk exactness: every instance below each root exactly once, nothing else."""
from __future__ import annotations

import itertools
from typing import Any, Dict, List

from .. import gen
from .. import refsnmp as S
from ..runner import rng_for
from ..world import (OID, PyWrapper, World, agent_for, collect, gen_proto, oid_t, to_ref)

ID = "C01"
LEVEL = "exploration"
RULE = ("Seeded plans: generated MIB (0-6 subtrees: empty, adjacent, far apart, uneven, ending the view), "
        "1-5 pairwise disjoint roots in a seeded listing order (all orders for <=3 roots), v2c / v3 at each "
        "level, entry point walk/multiwalk/PyWrapper.walk/PyWrapper.multiwalk, fault-free or lossy network. "
        "A run is non-trivial if the oracle was evaluated on a completed walk that expected >=1 instance or had "
        ">=2 roots; distinct = distinct (entry point, protocol level, subtree-size vector in root order, "
        "root classes, fault kinds fired, outcome class).")
ASSUMPTIONS = [
    "the reference agent (sim/agent.py) is a conformant SNMPv2c/v3 agent; validated by `check.py selftest reference`",
    "SimDatagramTransport reproduces the asyncio datagram-transport contract (selftest fidelity)",
    "an instance whose OID equals a root may or may not be reported (as the property states)",
]
PROBES = ["earlier_overlapping_walk", "root_past_end", "empty_subtree_root", "eom_before_value", "subtree_ends_view", "uneven", "three_roots",
          "lossy_completed", "lossy_timeout"]
shrink_lists = [("roots",), ("mib",), ("faults", "explicit")]

APIS = ["walk", "multiwalk", "pywalk", "pymultiwalk"]


def total(tier: str) -> int:
    return 4000 if tier == "quick" else 120000


def plan_for(tier: str, seed: int, i: int) -> dict:
    rng = rng_for(seed, ID, tier, i)
    mib, roots, info = gen.gen_walk_world(rng)
    api = rng.choice(APIS)
    if api in ("walk", "pywalk"):
        roots = roots[:1]
    lossy = rng.random() < 0.25
    # an earlier walk on the same client over different but overlapping roots (a sub-tree of a root, or a parent of
    # several): nothing learnt there may influence the walk under test
    prng = rng_for(seed, ID, tier + ":pre", i)
    pre_roots: List[tuple] = []
    if prng.random() < 0.3:
        keys = [o for o, _ in mib]
        below = [o for o in keys if any(len(o) > len(r) + 1 and o[:len(r)] == r for r in roots)]
        if below and prng.random() < 0.6:
            o = prng.choice(below)
            pre_roots = [o[:-1]]                               # a column / sub-tree below a root
        else:
            pre_roots = [roots[0][:-1]]                        # the parent of a root
    return {
        "prop": ID, "proto": gen_proto(rng), "mib": mib, "roots": roots, "api": api, "pre_roots": pre_roots,
        "perms": (not lossy) and len(roots) in (2, 3),
        "faults": gen.gen_faults(rng, lossy), "lossy": lossy,
        "clock": gen.gen_clock(rng), "timeout": 2, "retries": rng.choice([2, 3, 5]),
    }


def valid(plan: dict) -> bool:
    roots = plan["roots"]
    if not roots:
        return False
    if plan["api"] in ("walk", "pywalk") and len(roots) != 1:
        return False
    for a in roots:
        for b in roots:
            if a is not b and a[:len(b)] == b:
                return False
    return True


def simplify(plan: dict):
    if plan["proto"]["version"] == "v3":
        p = dict(plan)
        p["proto"] = {"version": "v2c", "community": "public"}
        yield p
    if plan["api"] != "multiwalk" and plan["api"] != "walk":
        p = dict(plan)
        p["api"] = "walk" if plan["api"] == "pywalk" else "multiwalk"
        yield p
    if plan.get("perms"):
        p = dict(plan)
        p["perms"] = False
        yield p
    if plan.get("pre_roots"):
        p = dict(plan)
        p["pre_roots"] = []
        yield p
    # replace values by small integers
    if any(v != ("int", 1) for _, v in plan["mib"]):
        p = dict(plan)
        p["mib"] = [(o, ("int", 1)) for o, _ in plan["mib"]]
        yield p


async def _do_walk(client: Any, api: str, roots: List[tuple]) -> List[tuple]:
    if api == "walk":
        res = await collect(client.walk(OID(roots[0])))
        return [(oid_t(vb.oid), to_ref(vb.value)) for vb in res]
    if api == "multiwalk":
        res = await collect(client.multiwalk([OID(r) for r in roots]))
        return [(oid_t(vb.oid), to_ref(vb.value)) for vb in res]
    py = PyWrapper(client)
    if api == "pywalk":
        res = await collect(py.walk(S.oid_str(roots[0])))
    else:
        res = await collect(py.multiwalk([S.oid_str(r) for r in roots]))
    return [(S.oid_tuple(vb.oid), ("py", vb.value)) for vb in res]


def run_walk(plan: dict, roots: List[tuple], walker: Any = _do_walk, extra: Any = None) -> dict:
    """Execute one walk in a fresh world and evaluate the C01 oracle.  Shared with C02."""
    w = World(faults=plan["faults"], clock=plan.get("clock"))
    mib = dict(plan["mib"])
    agent = w.add_agent(agent_for(plan["proto"], mib))
    if extra is not None:
        extra(w, agent)
    client = w.client(plan["proto"], timeout=plan["timeout"], retries=plan["retries"])
    got: List[tuple] = []
    exc = None

    n_before = [0]

    async def main() -> None:
        nonlocal got
        pre = [tuple(r) for r in plan.get("pre_roots") or []]
        if pre:
            try:
                await walker(client, "multiwalk" if plan["api"] in ("multiwalk", "pymultiwalk", "walk", "pywalk") else plan["api"], pre)
            except Exception:  # noqa: BLE001
                pass            # the earlier walk is not under test here (it is some other plan's walk under test)
        n_before[0] = len(agent.requests)
        got = await walker(client, plan["api"], roots)

    partial: List[tuple] = []
    try:
        w.run(main())
    except Exception as e:  # noqa: BLE001
        exc = e
    w.settle()
    expected = gen.expected_below(plan["mib"], roots)
    lossy = bool(plan.get("lossy"))
    violation = None
    detail: Dict[str, Any] = {}

    def fail(clause: str, d: Any) -> None:
        nonlocal violation
        if violation is None:
            violation = {"clause": clause, "detail": "%s roots=%s" % (d, [S.oid_str(r) for r in roots])}

    ok_reqs = [r for r in agent.requests[n_before[0]:] if r["verdict"] == "ok"]
    if exc is not None:
        if lossy and type(exc).__name__ == "Timeout":
            pass
        else:
            fail("raised:" + type(exc).__name__, "walk raised %s: %s" % (type(exc).__name__, exc))
    else:
        oids = [o for o, _ in got]
        seen = set()
        for o in oids:
            if o in seen:
                fail("duplicate", "instance %s yielded twice" % S.oid_str(o))
            seen.add(o)
        for o in oids:
            if o not in expected and o not in roots:
                fail("extra", "yielded %s which lies outside all roots" % S.oid_str(o))
            elif o in roots and o not in mib:
                fail("extra", "yielded root %s which the agent does not hold" % S.oid_str(o))
        for o in expected:
            if o not in seen:
                fail("missing", "instance %s (below a root) was not yielded" % S.oid_str(o))
        for o, v in got:
            want = mib.get(o)
            if want is not None and v[0] != "py" and v != want:
                fail("value", "%s: got %r, agent holds %r" % (S.oid_str(o), v, want))
        if len(roots) == 1 and oids != sorted(oids):
            fail("order", "single-root walk not in ascending order")
        bound = len(expected) + len(roots) + 1
        n_data_reqs = len([r for r in ok_reqs if r["pdu"] and r["pdu"]["tag"] in (S.PDU_GETNEXT, S.PDU_BULK)])
        if not lossy and n_data_reqs > bound + (1 if any(r in mib for r in roots) else 0):
            fail("too-many-requests", "%d requests for %d instances" % (n_data_reqs, len(expected)))
    # trace facts used by probes and known-finding signatures
    eom_before_value = False
    for r in ok_reqs:
        resp = r.get("resp_pdu")
        if not resp or resp["tag"] != S.PDU_RESPONSE:
            continue
        kinds = [v[0] for _, v in resp["vbs"]]
        if "eom" in kinds and any(k != "eom" for k in kinds[kinds.index("eom"):]):
            eom_before_value = True
    out = {
        "violation": violation, "digest": w.net.digest(), "fired": list(w.net.fired),
        "exc": type(exc).__name__ if exc else None,
        # instances equal to a root may or may not be reported: leave them out of comparisons
        "result": sorted(set(o for o, _ in got if o not in roots)) if exc is None else None,
        "eom_before_value": eom_before_value,
        "requests": len(agent.requests), "exchanges": agent.exchanges,
        "sim_s": w.loop.time(), "counters": dict(w.net.counters),
        "malformed": agent.malformed, "open_sockets": w.net.open_sockets(),
        "n_expected": len(expected),
    }
    w.close()
    return out


def execute(plan: dict) -> dict:
    roots = [tuple(r) for r in plan["roots"]]
    plan = dict(plan)
    plan["mib"] = [(tuple(o), tuple(v) if isinstance(v, list) else v) for o, v in plan["mib"]]
    first = run_walk(plan, roots)
    out = first
    counters = dict(first["counters"])
    mibkeys = [o for o, _ in plan["mib"]]
    last = max(mibkeys) if mibkeys else None
    sizes = [sum(1 for o in mibkeys if len(o) > len(r) and o[:len(r)] == r) for r in roots]
    probes = {
        "root_past_end": int(any(last is None or r > last for r in roots)),
        "empty_subtree_root": int(any(s == 0 for s in sizes)),
        "eom_before_value": int(first["eom_before_value"]),
        "subtree_ends_view": int(any(last is not None and s > 0 and last[:len(r)] == r for r, s in zip(roots, sizes))),
        "uneven": int(len(sizes) > 1 and min(sizes) > 0 and max(sizes) >= 4 * min(sizes)),
        "three_roots": int(len(roots) >= 3), "earlier_overlapping_walk": int(bool(plan.get("pre_roots"))),
        "lossy_completed": int(bool(plan.get("lossy")) and first["exc"] is None),
        "lossy_timeout": int(bool(plan.get("lossy")) and first["exc"] == "Timeout"),
    }
    digests = [first["digest"]]
    exchanges = first["exchanges"]
    sim_s = first["sim_s"]
    if out["violation"] is None and plan.get("perms") and len(roots) in (2, 3):
        for perm in list(itertools.permutations(roots))[1:]:
            o = run_walk(plan, list(perm))
            digests.append(o["digest"])
            exchanges += o["exchanges"]
            sim_s += o["sim_s"]
            counters["perm_runs"] = counters.get("perm_runs", 0) + 1
            probes["eom_before_value"] |= int(o["eom_before_value"])
            if o["violation"]:
                out = dict(o)
                out["violation"] = {"clause": o["violation"]["clause"],
                                    "detail": o["violation"]["detail"] + " (listing order %s)" % (
                                        [S.oid_str(r) for r in perm],)}
                break
            if o["result"] != first["result"]:
                out = dict(o)
                out["violation"] = {"clause": "order-dependent",
                                    "detail": "result set differs between listing orders %s and %s" % (
                                        [S.oid_str(r) for r in roots], [S.oid_str(r) for r in perm])}
                break
    for k, v in probes.items():
        counters["probe_" + k] = v
    import hashlib
    triggers = []
    if probes["eom_before_value"] or out.get("eom_before_value"):
        triggers.append("C01-eom-before-value")
    fired_kinds = sorted(set(f[2] for f in first["fired"]))
    level = plan["proto"].get("level", "") if plan["proto"]["version"] == "v3" else ""
    shape = repr((plan["api"], plan["proto"]["version"], level, sizes,
                  probes["root_past_end"], fired_kinds, first["exc"]))
    return {
        "violation": out["violation"], "digest": hashlib.sha256("".join(digests).encode()).hexdigest(),
        "fired": first["fired"], "triggers": triggers, "counters": counters,
        "shape": shape, "nontrivial": first["exc"] is None and (first["n_expected"] >= 1 or len(roots) >= 2),
        "sim_s": sim_s, "exchanges": exchanges,
        "summary": "%s roots=%d expected=%d exc=%s" % (plan["api"], len(roots), first["n_expected"], first["exc"]),
    }


def describe(plan: dict) -> str:
    mib = [S.oid_str(tuple(o)) for o, _ in plan["mib"]]
    return "api=%s proto=%s roots=%s\nmib=%s\nfaults=%s" % (
        plan["api"], {k: v for k, v in plan["proto"].items() if "pass" not in k},
        [S.oid_str(tuple(r)) for r in plan["roots"]], mib,
        plan["faults"].get("explicit") or plan["faults"].get("rates"))
