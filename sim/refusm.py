"""Independent RFC 3414 pieces: key derivation, localisation, HMAC-96, stream transform."""
from __future__ import annotations

import hashlib
import hmac
from typing import Dict, Tuple

_HASH = {"md5": hashlib.md5, "sha1": hashlib.sha1}
_ku_cache: Dict[Tuple[str, bytes], bytes] = {}


def password_to_ku(proto: str, password: bytes) -> bytes:
    """RFC 3414 A.2: hash 1 048 576 octets formed by repeating the password,
    fed in 64-octet chunks exactly as the RFC's reference loop does."""
    key = (proto, password)
    if key in _ku_cache:
        return _ku_cache[key]
    if not password:
        raise ValueError("empty password")
    h = _HASH[proto]()
    plen = len(password)
    index = 0
    count = 0
    # Build chunks the way the RFC loop does (password_buf[i] = password[index++ % len]).
    # To stay fast, pre-compute one period of lcm(plen, 64) octets when small.
    period = plen * 64
    stream = (password * (period // plen))  # multiple of both plen and 64
    total = 1048576
    full, rest = divmod(total, len(stream))
    for _ in range(full):
        h.update(stream)
    if rest:
        h.update(stream[:rest])
    ku = h.digest()
    _ku_cache[key] = ku
    return ku


def localise(proto: str, ku: bytes, engine_id: bytes) -> bytes:
    return _HASH[proto](ku + engine_id + ku).digest()


_kul_cache: Dict[Tuple[str, bytes, bytes], bytes] = {}


def localised_key(proto: str, password: bytes, engine_id: bytes) -> bytes:
    k = (proto, password, engine_id)
    if k not in _kul_cache:
        _kul_cache[k] = localise(proto, password_to_ku(proto, password), engine_id)
    return _kul_cache[k]


def hmac96(proto: str, key: bytes, message: bytes) -> bytes:
    """HMAC-MD5-96 / HMAC-SHA-96 written out per RFC 2104 (no hmac module)."""
    hf = _HASH[proto]
    block = 64
    if len(key) > block:
        key = hf(key).digest()
    key = key + b"\x00" * (block - len(key))
    ipad = bytes(b ^ 0x36 for b in key)
    opad = bytes(b ^ 0x5C for b in key)
    inner = hf(ipad + message).digest()
    return hf(opad + inner).digest()[:12]


def sign(proto: str, key: bytes, msg_with_zero_digest: bytes) -> bytes:
    return hmac96(proto, key, msg_with_zero_digest)


def verify_raw(proto: str, key: bytes, raw: bytes, auth_off: Tuple[int, int]) -> bool:
    """Verify over the message *exactly as received*, digest octets zeroed in place."""
    off, ln = auth_off
    if ln != 12:
        return False
    received = raw[off:off + 12]
    zeroed = raw[:off] + b"\x00" * 12 + raw[off + 12:]
    return hmac.compare_digest(received, hmac96(proto, key, zeroed))


# --- harness privacy transform (shared by the plug-in and the agent) ------------

def keystream(key: bytes, engine_id: bytes, boots: int, etime: int, salt: bytes, n: int) -> bytes:
    out = bytearray()
    counter = 0
    seed = key + b"|" + engine_id + b"|" + boots.to_bytes(8, "big") + etime.to_bytes(8, "big") + b"|" + salt
    while len(out) < n:
        out.extend(hashlib.sha256(seed + counter.to_bytes(4, "big")).digest())
        counter += 1
    return bytes(out[:n])


def stream_xor(key: bytes, engine_id: bytes, boots: int, etime: int, salt: bytes, data: bytes) -> bytes:
    ks = keystream(key, engine_id, boots, etime, salt, len(data))
    return bytes(a ^ b for a, b in zip(data, ks))
