"""Seeded search driver: plan generation, parallel execution, minimisation, attribution to
known findings, replay files, evidence files and exit codes.

A property module (sim/props/cXX.py) provides:
  ID, LEVEL, RULE, ASSUMPTIONS, COMPONENTS
  total(tier) -> int                      number of plans in this tier (random + enumerated)
  plan_for(tier, seed, i) -> plan         deterministic; plan is plain data
  execute(plan) -> outcome dict           runs one simulated world; no randomness, no real clock
  shrink_lists: list of key paths to list-valued plan entries the minimiser may thin out
  simplify(plan) -> iterable of plans     optional value-level shrinking candidates
  exhaustive(tier) -> Optional[str]       description of a completely enumerated sub-space
"""
from __future__ import annotations

import copy
import asyncio
import faulthandler
import hashlib
import importlib
import json
import os
import random
import sys
import time
import traceback
from concurrent.futures import ProcessPoolExecutor
from concurrent.futures.process import BrokenProcessPool
from multiprocessing import get_context
from typing import Any, Dict, Iterable, List, Optional, Tuple

from . import jsonx

_now = time.time   # the real clock (simulated worlds rebind time.time while they execute)

VERIF_ROOT = os.path.dirname(os.path.dirname(os.path.abspath(__file__)))
EVIDENCE_DIR = os.environ.get("VERIF_EVIDENCE_DIR") or os.path.join(VERIF_ROOT, "evidence")
REPLAY_DIR = os.environ.get("VERIF_REPLAY_DIR") or os.path.join(VERIF_ROOT, "replays")
REGRESSION_DIR = os.path.join(VERIF_ROOT, "regressions")
KNOWN_FINDINGS = os.path.join(VERIF_ROOT, "known_findings.json")

COMPONENTS_DEFAULT = {
    "real": ["puresnmp (working tree)", "puresnmp_plugins mpm/security/auth (working tree)", "x690",
             "asyncio tasks/futures/wait_for/BaseEventLoop scheduling"],
    "stub": ["event-loop selector and clock (virtual time)", "datagram transport (SimDatagramTransport)",
             "UDP network (SimNetwork)", "time() seen by puresnmp.util", "privacy plug-in (harness stream transform)"],
    "reference": ["RefAgent (v1/v2c/v3-USM)", "refber / refsnmp / refusm (independent codec, HMAC, key derivation)"],
}


def run_seed(seed: int, prop_id: str, tier: str, i: int) -> int:
    h = hashlib.sha256(("%d|%s|%s|%d" % (seed, prop_id, tier, i)).encode()).digest()
    return int.from_bytes(h[:8], "big")


def rng_for(seed: int, prop_id: str, tier: str, i: int) -> random.Random:
    return random.Random(run_seed(seed, prop_id, tier, i))


def load_prop(prop_id: str) -> Any:
    return importlib.import_module("sim.props." + prop_id.lower())


def make_plan(prop: Any, tier: str, seed: int, i: int) -> dict:
    """The property's plan plus the environment knobs every property shares (swarm style).

    debug_log / log_level: the application configured DEBUG logging for puresnmp (one plan in eight: all the guarded
    diagnostic code paths - hexdumps, LOG.debug arguments - run) or silenced it (CRITICAL, one plan in eight); no
    property may depend on the logging configuration."""
    plan = prop.plan_for(tier, seed, i)
    if "debug_log" not in plan:
        r = run_seed(seed, prop.ID, tier + ":env", i) % 8
        plan["debug_log"] = r == 0
        # ... or silenced them altogether (one plan in eight): code guarded by isEnabledFor(WARNING) is skipped
        plan["log_level"] = "DEBUG" if r == 0 else "CRITICAL" if r == 1 else "WARNING"
    return plan


def safe_execute(prop: Any, plan: dict) -> dict:
    """Execute one plan; harness exceptions are classified apart from violations."""
    from . import env as _env
    _env.set_log_level(plan.get("log_level") or ("DEBUG" if plan.get("debug_log") else "WARNING"))
    try:
        out = prop.execute(plan)
    except asyncio.CancelledError as exc:
        # The code under test raised CancelledError to a caller that never cancelled it (where the harness itself gives
        # up on a call it uses wait_for and sees TimeoutError): neither a result nor a documented exception - a verdict.
        import time as _time
        from .world import World
        if hasattr(World, "_real_time"):
            _time.time = World._real_time
        return {"violation": {"clause": "raised:CancelledError",
                              "detail": "the operation ended in asyncio.CancelledError although its caller never cancelled it\n%s" % (
                                  traceback.format_exc(limit=6))},
                "digest": "cancelled-error", "shape": "cancelled-error", "nontrivial": True, "counters": {}, "triggers": [],
                "sim_s": 0.0, "exchanges": 0}
    except Exception as exc:  # harness bug, not a verdict
        return {"violation": None, "harness_error": "%s: %s\n%s" % (
            type(exc).__name__, exc, traceback.format_exc(limit=8)),
            "digest": "", "shape": "", "nontrivial": False, "counters": {}, "triggers": [],
            "sim_s": 0.0, "exchanges": 0}
    out.setdefault("triggers", [])
    out.setdefault("counters", {})
    out["counters"]["probe_debug_logging_on"] = int(bool(plan.get("debug_log")))
    out["counters"]["probe_logging_silenced"] = int(plan.get("log_level") == "CRITICAL")
    out.setdefault("sim_s", 0.0)
    out.setdefault("exchanges", 0)
    out.setdefault("shape", "")
    out.setdefault("nontrivial", False)
    out.setdefault("digest", "")
    return out


def _worker(args: Tuple[str, str, int, List[int], int]) -> List[Tuple[int, dict]]:
    prop_id, tier, seed, indices, guard_s = args
    faulthandler.dump_traceback_later(guard_s, exit=True)
    try:
        prop = load_prop(prop_id)
        out = []
        for i in indices:
            plan = make_plan(prop, tier, seed, i)
            o = safe_execute(prop, plan)
            o.pop("trace", None)
            out.append((i, o))
        return out
    finally:
        faulthandler.cancel_dump_traceback_later()


# ---------------------------------------------------------------------------------
# minimisation

def _get(plan: dict, path: Tuple[str, ...]) -> Any:
    cur = plan
    for k in path:
        if not isinstance(cur, dict) or k not in cur:
            return None
        cur = cur[k]
    return cur


def _set(plan: dict, path: Tuple[str, ...], value: Any) -> dict:
    new = copy.deepcopy(plan)
    cur = new
    for k in path[:-1]:
        cur = cur[k]
    cur[path[-1]] = value
    return new


class Minimiser:
    def __init__(self, prop: Any, clause_class: str, budget: int = 300) -> None:
        self.prop = prop
        self.clause_class = clause_class
        self.budget = budget
        self.execs = 0
        self.untriggered_seen = False

    def fails(self, plan: dict, require_untriggered: bool) -> Optional[dict]:
        if self.execs >= self.budget:
            return None
        self.execs += 1
        if hasattr(self.prop, "valid") and not self.prop.valid(plan):
            return None
        out = safe_execute(self.prop, plan)
        v = out.get("violation")
        if not v or clause_class(v["clause"]) != self.clause_class:
            return None
        if require_untriggered and out["triggers"]:
            return None
        return out

    def run(self, plan: dict, out: dict) -> Tuple[dict, dict]:
        # 1. materialise the faults that actually fired
        fired = out.get("fired")
        if fired is not None and isinstance(plan.get("faults"), dict) and plan["faults"].get("rates"):
            cand = copy.deepcopy(plan)
            cand["faults"]["rates"] = {}
            cand["faults"]["explicit"] = [list(f) for f in fired]
            o = self.fails(cand, False)
            if o is not None:
                plan, out = cand, o
        # 1b. property-specific shortcut (e.g. the single failing case of a batch)
        if hasattr(self.prop, "shortcut"):
            cand = self.prop.shortcut(plan, out)
            if cand is not None:
                o = self.fails(cand, False)
                if o is not None:
                    plan, out = cand, o
        untriggered = not out["triggers"]
        progress = True
        while progress and self.execs < self.budget:
            progress = False
            for cand in self._candidates(plan):
                # prefer sub-plans that do not contain a known-finding trigger
                o = self.fails(cand, True)
                if o is None and not untriggered:
                    o2 = self.fails(cand, False) if self.execs < self.budget else None
                    if o2 is not None:
                        o = o2
                elif o is not None:
                    untriggered = True
                if o is not None:
                    plan, out = cand, o
                    progress = True
                    break
        return plan, out

    def _candidates(self, plan: dict) -> Iterable[dict]:
        for path in getattr(self.prop, "shrink_lists", []):
            lst = _get(plan, tuple(path))
            if not isinstance(lst, list) or not lst:
                continue
            n = len(lst)
            chunk = n // 2
            while chunk >= 1:
                for start in range(0, n, chunk):
                    new = lst[:start] + lst[start + chunk:]
                    if len(new) < n:
                        yield _set(plan, tuple(path), new)
                chunk //= 2
        if hasattr(self.prop, "simplify"):
            yield from self.prop.simplify(plan)


def clause_class(clause: str) -> str:
    return clause.split(":", 1)[0]


# ---------------------------------------------------------------------------------
# known findings

def load_known_findings(prop_id: str) -> List[dict]:
    if not os.path.exists(KNOWN_FINDINGS):
        return []
    with open(KNOWN_FINDINGS) as fh:
        data = json.load(fh)
    return [e for e in data.get("findings", []) if e.get("property") == prop_id]


def load_plan_file(path: str) -> dict:
    with open(path) as fh:
        return jsonx.loads(fh.read())


def write_replay(prop_id: str, plan: dict, out: dict, note: str = "") -> str:
    os.makedirs(REPLAY_DIR, exist_ok=True)
    body = {"property": prop_id, "plan": plan, "clause": out["violation"]["clause"],
            "detail": out["violation"].get("detail", ""), "digest": out.get("digest", ""),
            "triggers": out.get("triggers", []), "note": note}
    text = jsonx.dumps(body, indent=1, sort_keys=True)
    name = "%s-%s.json" % (prop_id, hashlib.sha256(text.encode()).hexdigest()[:12])
    path = os.path.join(REPLAY_DIR, name)
    with open(path, "w") as fh:
        fh.write(text)
    return path


# ---------------------------------------------------------------------------------
# main driver

def run_check(prop_id: str, tier: str, seed: int, jobs: int, budget_s: Optional[float] = None) -> int:
    t0 = _now()
    prop = load_prop(prop_id)
    total = prop.total(tier)
    print("VERIF_SEED=%d property=%s tier=%s plans=%d jobs=%d repo_src=%s" % (
        seed, prop_id, tier, total, jobs, os.environ.get("VERIF_REPO_SRC", "/repo/src")), flush=True)
    if budget_s is None:
        budget_s = float(os.environ.get("VERIF_BUDGET_S", "600" if tier == "quick" else "5400"))

    harness_errors: List[str] = []
    results: Dict[int, dict] = {}
    violations_new: List[Tuple[dict, dict]] = []
    kf_hits: Dict[str, int] = {}
    stale: List[str] = []
    printed: List[str] = []

    # -- known findings and regressions of fixed findings ------------------------------
    findings = load_known_findings(prop_id)
    open_ids = [f["id"] for f in findings if f.get("status") == "open"]
    for f in findings:
        ex = f.get("example")
        if not ex:
            continue
        path = os.path.join(VERIF_ROOT, ex)
        try:
            body = load_plan_file(path)
        except Exception as exc:
            harness_errors.append("cannot load %s: %s" % (ex, exc))
            continue
        out = safe_execute(prop, body["plan"])
        if out.get("harness_error"):
            harness_errors.append("regression %s: %s" % (ex, out["harness_error"]))
            continue
        if f.get("status") == "open":
            if out["violation"] and f["id"] in out["triggers"]:
                line = "KNOWN-FINDING: property=%s %s" % (prop_id, f["what_fails"])
                print(line, flush=True)
                printed.append(line)
            elif out["violation"]:
                violations_new.append((body["plan"], out))
            else:
                stale.append(f["id"])
                print("note: known finding %s no longer reproduces on this tree (stale entry)" % f["id"], flush=True)
        else:  # fixed: its regression plan must pass
            if out["violation"]:
                violations_new.append((body["plan"], out))

    # -- exploration ---------------------------------------------------------------------
    chunk = max(1, min(200, total // (jobs * 8) or 1))
    indices = list(range(total))
    chunks = [indices[i:i + chunk] for i in range(0, total, chunk)]
    guard = int(os.environ.get("VERIF_CHUNK_GUARD_S", "900"))
    truncated = False
    if jobs <= 1:
        for ch in chunks:
            if _now() - t0 > budget_s:
                truncated = True
                break
            for i, o in _worker((prop_id, tier, seed, ch, guard)):
                results[i] = o
    else:
        ctx = get_context("fork")
        try:
            with ProcessPoolExecutor(max_workers=jobs, mp_context=ctx) as pool:
                pending = []
                it = iter(chunks)
                # keep the queue short so that the wall-clock budget can stop submission
                from concurrent.futures import FIRST_COMPLETED, wait
                live = set()
                done_all = False
                while not done_all:
                    while len(live) < jobs * 2:
                        if _now() - t0 > budget_s:
                            truncated = True
                            break
                        try:
                            ch = next(it)
                        except StopIteration:
                            break
                        live.add(pool.submit(_worker, (prop_id, tier, seed, ch, guard)))
                    if not live:
                        break
                    done, live = wait(live, return_when=FIRST_COMPLETED)
                    for fut in done:
                        for i, o in fut.result():
                            results[i] = o
        except BrokenProcessPool:
            harness_errors.append("a worker process died (wall-clock guard or crash); see stderr")
    for i in sorted(results):
        if results[i].get("harness_error"):
            harness_errors.append("run %d: %s" % (i, results[i]["harness_error"]))

    # -- determinism spot check (same seed twice, same process) ----------------------------
    det_checked = 0
    for i in sorted(results)[:int(os.environ.get("VERIF_DET_SAMPLE", str(getattr(prop, "DET_SAMPLE", 12))))]:
        o2 = safe_execute(prop, make_plan(prop, tier, seed, i))
        det_checked += 1
        if o2.get("digest") != results[i].get("digest"):
            harness_errors.append("non-deterministic run %d: digest %s vs %s" % (
                i, results[i].get("digest"), o2.get("digest")))

    # -- triage of violations ----------------------------------------------------------------
    viol_idx = [i for i in sorted(results) if results[i].get("violation")]
    minimise_budget = int(os.environ.get("VERIF_MINIMISE_RUNS", "6"))
    seen_classes: Dict[str, int] = {}
    for i in viol_idx:
        o = results[i]
        cls = clause_class(o["violation"]["clause"])
        trig = [t for t in o["triggers"] if t in open_ids]
        key = cls + "|" + ",".join(sorted(trig))
        seen_classes[key] = seen_classes.get(key, 0) + 1
        if seen_classes[key] > (2 if not trig else minimise_budget):
            if trig:
                for t in trig:
                    kf_hits[t] = kf_hits.get(t, 0) + 1
            continue
        plan = make_plan(prop, tier, seed, i)
        full = safe_execute(prop, plan)
        if not full.get("violation"):
            harness_errors.append("run %d: violation did not reproduce in the parent process" % i)
            continue
        mini = Minimiser(prop, cls, budget=int(os.environ.get("VERIF_MINIMISE_EXECS", str(getattr(prop, "MINIMISE_EXECS", 250)))))
        mplan, mout = mini.run(plan, full)
        mtrig = [t for t in mout["triggers"] if t in open_ids]
        if mtrig:
            for t in mtrig:
                kf_hits[t] = kf_hits.get(t, 0) + 1
        else:
            mplan["_origin"] = {"seed": seed, "tier": tier, "index": i, "run_seed": run_seed(seed, prop_id, tier, i)}
            violations_new.append((mplan, mout))

    exit_code = 0
    replay_paths = []
    reported = set()
    for plan, out in violations_new:
        path = write_replay(prop_id, plan, out)
        if path in reported:
            continue
        reported.add(path)
        replay_paths.append(path)
        print("VIOLATION property=%s replay=%s" % (prop_id, path), flush=True)
        print("  clause: %s" % out["violation"]["clause"])
        print("  detail: %s" % str(out["violation"].get("detail", ""))[:600])
        if hasattr(prop, "describe"):
            try:
                print("  " + prop.describe(plan).replace("\n", "\n  "))
            except Exception:
                pass
        exit_code = 1
    for fid, n in sorted(kf_hits.items()):
        f = [x for x in findings if x["id"] == fid][0]
        line = "KNOWN-FINDING: property=%s %s" % (prop_id, f["what_fails"])
        if line not in printed:
            print(line, flush=True)
            printed.append(line)
        print("  (%d explored runs attributed to %s)" % (n, fid))

    # -- evidence --------------------------------------------------------------------------
    wall = _now() - t0
    write_evidence(prop, prop_id, tier, seed, results, wall, len(violations_new), kf_hits,
                   harness_errors, truncated, det_checked, replay_paths, stale)
    if harness_errors:
        for e in harness_errors[:10]:
            print("HARNESS-ERROR: %s" % e, flush=True)
        if exit_code == 0:
            exit_code = 2
    print("property=%s tier=%s evaluations=%d violations=%d known_finding_runs=%d wall=%.1fs exit=%d" % (
        prop_id, tier, len(results), len(violations_new), sum(kf_hits.values()), wall, exit_code), flush=True)
    return exit_code


def write_evidence(prop: Any, prop_id: str, tier: str, seed: int, results: Dict[int, dict], wall: float,
                   n_viol: int, kf_hits: Dict[str, int], harness_errors: List[str], truncated: bool,
                   det_checked: int, replay_paths: List[str], stale: List[str]) -> None:
    os.makedirs(EVIDENCE_DIR, exist_ok=True)
    counters: Dict[str, int] = {}
    shapes = set()
    sim_s = 0.0
    exchanges = 0
    interleavings = set()
    n_evals_inner = n_distinct_inner = 0
    cover: Dict[str, set] = {}
    for i, o in results.items():
        for k, v in o.get("counters", {}).items():
            counters[k] = counters.get(k, 0) + v
        if o.get("nontrivial") and o.get("shape"):
            shapes.add(o["shape"])
        for k, vals in (o.get("sets") or {}).items():
            cover.setdefault(k, set()).update(vals)
        n_evals_inner += o.get("n_evals", 1)
        n_distinct_inner += o.get("n_distinct", 0)
        if o.get("interleaving"):
            interleavings.add(o["interleaving"])
        sim_s += o.get("sim_s", 0.0)
        exchanges += o.get("exchanges", 0)
    samples = []
    for i in sorted(results)[:3]:
        try:
            plan = make_plan(prop, tier, seed, i)
            o = results[i]
            samples.append({"index": i, "run_seed": run_seed(seed, prop_id, tier, i),
                            "plan": json.loads(jsonx.dumps(_trim(plan))),
                            "outcome": {"violation": o.get("violation"), "digest": o.get("digest"),
                                        "summary": o.get("summary", "")}})
        except Exception as exc:  # pragma: no cover
            samples.append({"index": i, "error": str(exc)})
    if not samples:
        samples.append({"note": "no run completed"})
    n = len(results)
    faults = {k[6:]: v for k, v in counters.items() if k.startswith("fault_")}
    probes = {k[6:]: v for k, v in counters.items() if k.startswith("probe_")}
    zero_probes = sorted(k for k, v in probes.items() if v == 0)
    for name in getattr(prop, "PROBES", []):
        probes.setdefault(name, 0)
        if probes[name] == 0 and name not in zero_probes:
            zero_probes.append(name)
    cov = {
        "evaluations": n_evals_inner,
        "distinct_nontrivial": n_distinct_inner if n_distinct_inner else len(shapes),
        "plans_executed": n,
        "rule": prop.RULE,
        "samples": samples,
        "exhaustive": bool(getattr(prop, "exhaustive", lambda t: None)(tier)) and not truncated,
        "enumerated_space": getattr(prop, "exhaustive", lambda t: None)(tier),
        "runs_per_hour": int(n / wall * 3600) if wall > 0 else 0,
        "seeds_per_hour": int(n / wall * 3600) if wall > 0 else 0,
        "exchanges": exchanges,
        "simulated_seconds": round(sim_s, 3),
        "faults_fired": faults,
        "probes": probes,
        "probes_at_zero": zero_probes,
        "distinct_interleavings": len(interleavings) if interleavings else None,
        "counters": {k: v for k, v in sorted(counters.items()) if not k.startswith(("fault_", "probe_"))},
        "covered_values": {k: ({"count": len(v), "min": min(v), "max": max(v)} if k.endswith("_max") else
                               {"count": len(v), "min": min(v), "max": max(v),
                                "covered_in_100_300": len([x for x in v if 100 <= x <= 300]),
                                "missing_in_100_300": [x for x in range(100, 301) if x not in v][:60]})
                           for k, v in sorted(cover.items()) if v},
        "components": getattr(prop, "COMPONENTS", COMPONENTS_DEFAULT),
        "known_finding_hits": kf_hits,
        "stale_known_findings": stale,
        "determinism_rechecked_runs": det_checked,
        "truncated_by_wall_budget": truncated,
        "harness_errors": harness_errors[:5],
        "replays": replay_paths,
        "master_seed": seed,
        "repo_src": os.environ.get("VERIF_REPO_SRC", "/repo/src"),
    }
    ev = {
        "property_id": prop_id,
        "tier": tier,
        "seed": seed,
        "level": prop.LEVEL,
        "coverage": cov,
        "assumptions": list(prop.ASSUMPTIONS),
        "wall_s": round(wall, 2),
        "violations": n_viol,
    }
    tmp = os.path.join(EVIDENCE_DIR, prop_id + ".json.tmp")
    with open(tmp, "w") as fh:
        json.dump(ev, fh, indent=1, sort_keys=True)
    os.replace(tmp, os.path.join(EVIDENCE_DIR, prop_id + ".json"))


def _trim(o: Any, depth: int = 0) -> Any:
    """Keep evidence samples readable: truncate very long lists/bytes."""
    if isinstance(o, (bytes, bytearray)) and len(o) > 64:
        return bytes(o[:64])
    if isinstance(o, list) and len(o) > 40:
        return [_trim(x, depth + 1) for x in o[:40]] + ["... %d more" % (len(o) - 40)]
    if isinstance(o, list):
        return [_trim(x, depth + 1) for x in o]
    if isinstance(o, tuple):
        return tuple(_trim(x, depth + 1) for x in o)
    if isinstance(o, dict):
        return {k: _trim(v, depth + 1) for k, v in o.items()}
    return o


def replay(prop_id: str, path: str) -> int:
    prop = load_prop(prop_id)
    body = load_plan_file(path)
    plan = body["plan"]
    out = safe_execute(prop, plan)
    if out.get("harness_error"):
        print("HARNESS-ERROR: %s" % out["harness_error"])
        return 2
    v = out.get("violation")
    print("replay property=%s file=%s digest=%s (recorded %s)" % (prop_id, path, out.get("digest"), body.get("digest")))
    if v:
        same = clause_class(v["clause"]) == clause_class(body.get("clause", v["clause"]))
        print("VIOLATION property=%s replay=%s" % (prop_id, path))
        print("  clause: %s%s" % (v["clause"], "" if same else "  (recorded: %s)" % body.get("clause")))
        print("  detail: %s" % str(v.get("detail", ""))[:1000])
        print("  digest matches recording: %s" % (out.get("digest") == body.get("digest")))
        if hasattr(prop, "describe"):
            print("  " + prop.describe(plan).replace("\n", "\n  "))
        return 1
    print("no violation: the recorded plan passes on this tree")
    return 0
