"""Import bootstrap: make `puresnmp` come from $VERIF_REPO_SRC (default /repo/src, i.e. the
current working tree) and put the harness privacy plug-ins on the plug-in namespace."""
import logging
import os
import sys
import warnings

VERIF_ROOT = os.path.dirname(os.path.dirname(os.path.abspath(__file__)))
REPO_SRC = os.environ.get("VERIF_REPO_SRC", "/repo/src")
PLUGINS = os.path.join(VERIF_ROOT, "plugins")


class CountingHandler(logging.Handler):
    def __init__(self) -> None:
        super().__init__()
        self.counts = {}

    def emit(self, record: logging.LogRecord) -> None:
        key = record.levelname
        self.counts[key] = self.counts.get(key, 0) + 1


LOG_COUNTER = CountingHandler()
_done = False


def setup() -> None:
    global _done
    if _done:
        return
    _done = True
    src = os.path.abspath(REPO_SRC)
    others = [p for p in sys.path
              if os.path.abspath(p or ".") != src
              and not (os.path.abspath(p or ".") == "/repo/src" and src != "/repo/src")]
    sys.path[:] = [src, PLUGINS] + [p for p in others if os.path.abspath(p or ".") != PLUGINS]
    if VERIF_ROOT not in sys.path:
        sys.path.insert(0, VERIF_ROOT)
    warnings.simplefilter("ignore")
    for name in ("puresnmp", "puresnmp_plugins", "asyncio"):
        lg = logging.getLogger(name)
        lg.addHandler(LOG_COUNTER)
        lg.propagate = False
        lg.setLevel(logging.WARNING)
    import puresnmp  # noqa: F401
    got = os.path.abspath(os.path.dirname(os.path.dirname(puresnmp.__file__)))
    if got != src:
        raise RuntimeError("puresnmp imported from %s, expected %s" % (got, src))


def set_log_level(name: str) -> None:
    """Emulate an application that configured DEBUG / WARNING / CRITICAL for the puresnmp loggers; records are only counted."""
    setup()
    level = getattr(logging, name)
    for name in ("puresnmp", "puresnmp_plugins"):
        logging.getLogger(name).setLevel(level)
