"""Independent SNMP message layer (RFC 1157, 3416, 3412, 3414 framing).

Values are ``(kind, value)`` tuples; OIDs are tuples of ints; PDUs and messages
are plain dicts.  No code is shared with puresnmp.
"""
from __future__ import annotations

from typing import Any, Callable, Dict, List, Optional, Tuple

from . import refber as B
from .refber import BerError

# kind -> tag
TAGS = {
    "int": 0x02, "str": 0x04, "null": 0x05, "oid": 0x06,
    "ip": 0x40, "c32": 0x41, "g32": 0x42, "tt": 0x43, "opaque": 0x44, "c64": 0x46,
    "nso": 0x80, "nsi": 0x81, "eom": 0x82,
}
KINDS = {v: k for k, v in TAGS.items()}

PDU_GET, PDU_GETNEXT, PDU_RESPONSE, PDU_SET, PDU_V1TRAP, PDU_BULK, PDU_INFORM, PDU_TRAP2, PDU_REPORT = (
    0xA0, 0xA1, 0xA2, 0xA3, 0xA4, 0xA5, 0xA6, 0xA7, 0xA8)

I32_MIN, I32_MAX = -(2**31), 2**31 - 1

Value = Tuple[str, Any]
LF = Callable[[str], int]


def _lf0(level: str) -> int:
    return 0


# --- values ---------------------------------------------------------------

def enc_value(val: Value, form: int = 0) -> bytes:
    kind, v = val
    tag = TAGS[kind]
    if kind == "int":
        return B.enc_int(v, tag, form)
    if kind in ("c32", "g32", "tt", "c64"):
        return B.enc_int(v, tag, form)
    if kind in ("str", "opaque"):
        return B.tlv(tag, bytes(v), form)
    if kind == "ip":
        return B.tlv(tag, bytes(v), form)
    if kind == "oid":
        return B.tlv(tag, B.enc_oid_content(v), form)
    if kind in ("null", "nso", "nsi", "eom"):
        return B.tlv(tag, b"", form)
    raise ValueError(kind)


def dec_value(node: B.Node) -> Value:
    kind = KINDS.get(node.tag)
    if kind is None:
        raise BerError("unknown value tag %02x" % node.tag)
    c = node.content
    if kind == "int":
        v = B.dec_int(c)
        if not I32_MIN <= v <= I32_MAX:
            raise BerError("INTEGER outside Integer32")
        return (kind, v)
    if kind in ("c32", "g32", "tt"):
        return (kind, B.dec_uint(c, 32))
    if kind == "c64":
        return (kind, B.dec_uint(c, 64))
    if kind in ("str", "opaque"):
        return (kind, bytes(c))
    if kind == "ip":
        if len(c) != 4:
            raise BerError("IpAddress must have 4 octets")
        return (kind, bytes(c))
    if kind == "oid":
        return (kind, B.dec_oid(c))
    if c:
        raise BerError("%s must be empty" % kind)
    return (kind, None)


# --- PDUs -----------------------------------------------------------------

def enc_pdu(pdu: dict, lf: LF = _lf0) -> bytes:
    vbs = []
    for oid, val in pdu["vbs"]:
        vbs.append(B.enc_seq([B.enc_oid(oid, lf("oid")), enc_value(val, lf("value"))],
                             form=lf("vb")))
    body = [
        B.enc_int(pdu["rid"], form=lf("pdufield")),
        B.enc_int(pdu["es"], form=lf("pdufield")),
        B.enc_int(pdu["ei"], form=lf("pdufield")),
        B.enc_seq(vbs, form=lf("vbl")),
    ]
    return B.enc_seq(body, tag=pdu["tag"], form=lf("pdu"))


def dec_pdu(node: B.Node) -> dict:
    if node.tag not in (0xA0, 0xA1, 0xA2, 0xA3, 0xA5, 0xA6, 0xA7, 0xA8):
        raise BerError("not a PDU tag: %02x" % node.tag)
    ch = node.children or []
    if len(ch) != 4:
        raise BerError("PDU needs 4 fields, has %d" % len(ch))
    for c in ch[:3]:
        if c.tag != 0x02:
            raise BerError("PDU field is not INTEGER")
    rid, es, ei = (B.dec_int(c.content) for c in ch[:3])
    for v in (rid, es, ei):
        if not I32_MIN <= v <= I32_MAX:
            raise BerError("PDU integer outside Integer32")
    if ch[3].tag != 0x30:
        raise BerError("varbind list is not a SEQUENCE")
    vbs = []
    for vb in ch[3].children or []:
        if vb.tag != 0x30 or vb.children is None or len(vb.children) != 2:
            raise BerError("varbind is not SEQUENCE{name,value}")
        if vb.children[0].tag != 0x06:
            raise BerError("varbind name is not an OID")
        vbs.append((B.dec_oid(vb.children[0].content), dec_value(vb.children[1])))
    return {"tag": node.tag, "rid": rid, "es": es, "ei": ei, "vbs": vbs}


def mkpdu(tag: int, rid: int, vbs: List[Tuple[tuple, Value]], es: int = 0, ei: int = 0) -> dict:
    return {"tag": tag, "rid": rid, "es": es, "ei": ei, "vbs": list(vbs)}


# --- v1 / v2c ---------------------------------------------------------------

def enc_community_msg(version: int, community: bytes, pdu_bytes: bytes, lf: LF = _lf0) -> bytes:
    return B.enc_seq([B.enc_int(version, form=lf("msgfield")),
                      B.enc_str(community, form=lf("msgfield")), pdu_bytes], form=lf("msg"))


# --- v3 -------------------------------------------------------------------------

def enc_usm_params(sec: dict, lf: LF = _lf0) -> bytes:
    return B.enc_seq([
        B.enc_str(sec["engine_id"], form=lf("secfield")),
        B.enc_int(sec["boots"], form=lf("secfield")),
        B.enc_int(sec["time"], form=lf("secfield")),
        B.enc_str(sec["user"], form=lf("secfield")),
        B.enc_str(sec["auth"], form=lf("secfield")),
        B.enc_str(sec["priv"], form=lf("secfield")),
    ], form=lf("sec"))


def enc_scoped(ctx_engine: bytes, ctx_name: bytes, pdu_bytes: bytes, lf: LF = _lf0) -> bytes:
    return B.enc_seq([B.enc_str(ctx_engine, form=lf("spdufield")),
                      B.enc_str(ctx_name, form=lf("spdufield")), pdu_bytes], form=lf("spdu"))


def enc_v3_msg(msg_id: int, max_size: int, flags: int, sec_model: int, sec_bytes: bytes,
               data: bytes, lf: LF = _lf0) -> bytes:
    """``data`` is either an encoded scoped PDU (SEQUENCE) or an encoded OCTET STRING."""
    hdr = B.enc_seq([
        B.enc_int(msg_id, form=lf("hdrfield")),
        B.enc_int(max_size, form=lf("hdrfield")),
        B.enc_str(bytes([flags]), form=lf("hdrfield")),
        B.enc_int(sec_model, form=lf("hdrfield")),
    ], form=lf("hdr"))
    return B.enc_seq([B.enc_int(3, form=lf("msgfield")), hdr,
                      B.enc_str(sec_bytes, form=lf("secwrap")), data], form=lf("msg"))


def dec_scoped(node: B.Node) -> dict:
    ch = node.children
    if node.tag != 0x30 or ch is None or len(ch) != 3:
        raise BerError("scoped PDU is not SEQUENCE of 3")
    if ch[0].tag != 0x04 or ch[1].tag != 0x04:
        raise BerError("context fields are not OCTET STRINGs")
    return {"ctx_engine": bytes(ch[0].content), "ctx_name": bytes(ch[1].content),
            "pdu": dec_pdu(ch[2])}


def decode_message(data: bytes) -> dict:
    """Strictly decode one SNMP message (v1, v2c or v3)."""
    root = B.parse(data)
    if root.tag != 0x30 or root.children is None:
        raise BerError("message is not a SEQUENCE")
    ch = root.children
    if not ch or ch[0].tag != 0x02:
        raise BerError("no version INTEGER")
    version = B.dec_int(ch[0].content)
    nodes = B.all_nodes(root)
    nonmin = sum(1 for n in nodes if not n.minimal)
    if version in (0, 1):
        if len(ch) != 3 or ch[1].tag != 0x04:
            raise BerError("community message is not SEQUENCE{version,community,pdu}")
        return {"version": version, "community": bytes(ch[1].content),
                "pdu": dec_pdu(ch[2]), "nonminimal": nonmin, "root": root}
    if version != 3:
        raise BerError("unsupported version %d" % version)
    if len(ch) != 4:
        raise BerError("v3 message needs 4 fields")
    hdr = ch[1]
    if hdr.tag != 0x30 or hdr.children is None or len(hdr.children) != 4:
        raise BerError("bad HeaderData")
    h = hdr.children
    if h[0].tag != 0x02 or h[1].tag != 0x02 or h[2].tag != 0x04 or h[3].tag != 0x02:
        raise BerError("bad HeaderData field types")
    msg_id = B.dec_int(h[0].content)
    max_size = B.dec_int(h[1].content)
    if not 0 <= msg_id <= I32_MAX:
        raise BerError("msgID out of range")
    if not 484 <= max_size <= I32_MAX:
        raise BerError("msgMaxSize out of range")
    if len(h[2].content) != 1:
        raise BerError("msgFlags must be one octet")
    flags = h[2].content[0]
    sec_model = B.dec_int(h[3].content)
    if ch[2].tag != 0x04:
        raise BerError("msgSecurityParameters is not an OCTET STRING")
    sec_raw = bytes(ch[2].content)
    sec_off = ch[2].start + ch[2].hdr
    out: Dict[str, Any] = {
        "version": 3, "msg_id": msg_id, "max_size": max_size, "flags": flags,
        "sec_model": sec_model, "sec_raw": sec_raw, "nonminimal": nonmin, "root": root,
        "sec": None, "auth_off": None, "scoped": None, "encrypted": None,
    }
    if sec_model == 3:
        sroot = B.parse(sec_raw)
        sc = sroot.children
        if sroot.tag != 0x30 or sc is None or len(sc) != 6:
            raise BerError("UsmSecurityParameters is not SEQUENCE of 6")
        types = [0x04, 0x02, 0x02, 0x04, 0x04, 0x04]
        for c, t in zip(sc, types):
            if c.tag != t:
                raise BerError("bad UsmSecurityParameters field type")
        boots, etime = B.dec_int(sc[1].content), B.dec_int(sc[2].content)
        if not 0 <= boots <= I32_MAX or not 0 <= etime <= I32_MAX:
            raise BerError("boots/time out of range")
        out["sec"] = {"engine_id": bytes(sc[0].content), "boots": boots, "time": etime,
                      "user": bytes(sc[3].content), "auth": bytes(sc[4].content),
                      "priv": bytes(sc[5].content)}
        out["auth_off"] = (sec_off + sc[4].start + sc[4].hdr, len(sc[4].content))
        out["nonminimal"] += sum(1 for n in B.all_nodes(sroot) if not n.minimal)
    data_node = ch[3]
    if data_node.tag == 0x04:
        out["encrypted"] = bytes(data_node.content)
    elif data_node.tag == 0x30:
        out["scoped"] = dec_scoped(data_node)
        out["scoped_raw"] = data[data_node.start:data_node.end]
    else:
        raise BerError("msgData is neither SEQUENCE nor OCTET STRING")
    return out


def decode_scoped_bytes(data: bytes) -> dict:
    """Decode a decrypted scoped PDU; trailing padding after the TLV is allowed
    (RFC 3414 8.1.1.3: padding is ignored on decryption)."""
    node, _ = B.parse_prefix(data)
    return dec_scoped(node)


def oid_str(oid: tuple) -> str:
    return ".".join(str(x) for x in oid)


def oid_tuple(s: str) -> tuple:
    return tuple(int(x) for x in s.strip(".").split("."))
