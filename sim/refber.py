"""Independent BER codec for the SNMP subset (written from X.690 / RFC 3417).

Shares no code with x690 or puresnmp.  The decoder is strict where SNMP is
strict (definite lengths only, minimal INTEGER contents, well-formed OID
sub-identifiers, no trailing octets) and *reports* legal-but-unusual choices
(long-form / non-minimal length octets) instead of rejecting them.
"""
from __future__ import annotations

from typing import List, Optional, Sequence, Tuple, Union


class BerError(Exception):
    pass


class Node:
    """One TLV.  ``children`` is set for constructed encodings."""

    __slots__ = ("tag", "start", "hdr", "end", "content", "children", "len_octets", "minimal")

    def __init__(self, tag: int, start: int, hdr: int, end: int, content: bytes,
                 children: Optional[List["Node"]], len_octets: int, minimal: bool) -> None:
        self.tag = tag
        self.start = start          # offset of the identifier octet in the buffer
        self.hdr = hdr              # header length (identifier + length octets)
        self.end = end              # offset one past the last content octet
        self.content = content
        self.children = children
        self.len_octets = len_octets
        self.minimal = minimal

    @property
    def constructed(self) -> bool:
        return bool(self.tag & 0x20)

    def __repr__(self) -> str:
        if self.children is not None:
            return "Node(%02x, %r)" % (self.tag, self.children)
        return "Node(%02x, %s)" % (self.tag, self.content.hex())


def _parse_at(buf: bytes, pos: int, limit: int, depth: int) -> Node:
    if depth > 64:
        raise BerError("nesting deeper than 64")
    if pos >= limit:
        raise BerError("truncated: no identifier octet at %d" % pos)
    tag = buf[pos]
    if tag & 0x1F == 0x1F:
        raise BerError("high-tag-number form is not used in SNMP")
    if pos + 1 >= limit:
        raise BerError("truncated: no length octet")
    first = buf[pos + 1]
    if first < 0x80:
        length = first
        nlen = 1
        minimal = True
    elif first == 0x80:
        raise BerError("indefinite length is prohibited in SNMP")
    elif first == 0xFF:
        raise BerError("reserved length octet 0xFF")
    else:
        n = first & 0x7F
        if pos + 2 + n > limit:
            raise BerError("truncated length octets")
        lb = buf[pos + 2:pos + 2 + n]
        length = int.from_bytes(lb, "big")
        nlen = 1 + n
        minimal = length >= 0x80 and lb[0] != 0
    hdr = 1 + nlen
    cstart = pos + hdr
    cend = cstart + length
    if cend > limit:
        raise BerError("length %d at %d exceeds enclosing bound" % (length, pos))
    content = buf[cstart:cend]
    children: Optional[List[Node]] = None
    if tag & 0x20:
        children = []
        p = cstart
        while p < cend:
            child = _parse_at(buf, p, cend, depth + 1)
            children.append(child)
            p = child.end
    return Node(tag, pos, hdr, cend, content, children, nlen, minimal)


def parse(buf: bytes) -> Node:
    """Parse exactly one TLV occupying the whole buffer."""
    node = _parse_at(buf, 0, len(buf), 0)
    if node.end != len(buf):
        raise BerError("%d trailing octets" % (len(buf) - node.end))
    return node


def parse_prefix(buf: bytes) -> Tuple[Node, int]:
    node = _parse_at(buf, 0, len(buf), 0)
    return node, node.end


def all_nodes(node: Node) -> List[Node]:
    out = [node]
    for c in node.children or []:
        out.extend(all_nodes(c))
    return out


# --- primitive content decoders --------------------------------------------

def dec_int(content: bytes) -> int:
    if not content:
        raise BerError("empty INTEGER")
    if len(content) > 1:
        if content[0] == 0x00 and content[1] < 0x80:
            raise BerError("non-minimal INTEGER (leading 00)")
        if content[0] == 0xFF and content[1] >= 0x80:
            raise BerError("non-minimal INTEGER (leading FF)")
    return int.from_bytes(content, "big", signed=True)


def dec_uint(content: bytes, bits: int) -> int:
    """Unsigned application types are encoded as (two's complement) INTEGER:
    values >= 2^(bits-1) carry a leading 00 octet (RFC 3417 section 8 (3))."""
    v = dec_int(content)
    if v < 0:
        # Some agents omit the leading zero; the bytes then read as negative.
        # RFC 3417 does not allow it; refuse so the oracle never relies on it.
        raise BerError("negative encoding for unsigned type")
    if v >= 1 << bits:
        raise BerError("unsigned value out of range")
    return v


def dec_oid(content: bytes) -> Tuple[int, ...]:
    if not content:
        raise BerError("empty OID")
    subs: List[int] = []
    val = 0
    started = False
    for i, b in enumerate(content):
        if not started and b == 0x80:
            raise BerError("OID sub-identifier with leading 0x80")
        started = True
        val = (val << 7) | (b & 0x7F)
        if not b & 0x80:
            subs.append(val)
            val = 0
            started = False
    if started:
        raise BerError("truncated OID sub-identifier")
    first = subs[0]
    if first < 40:
        head = (0, first)
    elif first < 80:
        head = (1, first - 40)
    else:
        head = (2, first - 80)
    return head + tuple(subs[1:])


# --- encoder ---------------------------------------------------------------------

def enc_len(n: int, form: int = 0) -> bytes:
    """form 0: minimal; form k (1..4): long form with exactly k length octets
    (falls back to the smallest sufficient long form if k is too small)."""
    if form == 0:
        if n < 0x80:
            return bytes([n])
        nb = (n.bit_length() + 7) // 8
        return bytes([0x80 | nb]) + n.to_bytes(nb, "big")
    nb = max(form, (n.bit_length() + 7) // 8, 1)
    return bytes([0x80 | nb]) + n.to_bytes(nb, "big")


def tlv(tag: int, content: bytes, form: int = 0) -> bytes:
    return bytes([tag]) + enc_len(len(content), form) + content


def enc_int_content(v: int) -> bytes:
    n = max(1, (v.bit_length() + 8) // 8) if v >= 0 else max(1, ((~v).bit_length() + 8) // 8)
    return v.to_bytes(n, "big", signed=True)


def enc_int(v: int, tag: int = 0x02, form: int = 0) -> bytes:
    return tlv(tag, enc_int_content(v), form)


def enc_oid_content(oid: Sequence[int]) -> bytes:
    if len(oid) < 2:
        raise BerError("OID needs two arcs")
    subs = [oid[0] * 40 + oid[1]] + list(oid[2:])
    out = bytearray()
    for s in subs:
        if s < 0:
            raise BerError("negative arc")
        chunk = [s & 0x7F]
        s >>= 7
        while s:
            chunk.append((s & 0x7F) | 0x80)
            s >>= 7
        out.extend(reversed(chunk))
    return bytes(out)


def enc_oid(oid: Sequence[int], form: int = 0) -> bytes:
    return tlv(0x06, enc_oid_content(oid), form)


def enc_str(b: bytes, tag: int = 0x04, form: int = 0) -> bytes:
    return tlv(tag, b, form)


def enc_seq(items: Sequence[bytes], tag: int = 0x30, form: int = 0) -> bytes:
    return tlv(tag, b"".join(items), form)


def content_tree(node: Node) -> Union[tuple, list]:
    """Length-form independent view of a TLV, for 'same content' comparisons."""
    if node.children is not None:
        return (node.tag, [content_tree(c) for c in node.children])
    return (node.tag, node.content)
