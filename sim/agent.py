"""Reference SNMP agent (v1, v2c, v3/USM): the peer and the executable model."""
from __future__ import annotations

import bisect
from typing import Any, Callable, Dict, List, Optional, Tuple

from . import refber as B
from . import refsnmp as S
from . import refusm as U
from .refber import BerError

USM_STATS = (1, 3, 6, 1, 6, 3, 15, 1, 1)
ST_UNSUPPORTED_LEVEL = USM_STATS + (1, 0)
ST_NOT_IN_WINDOW = USM_STATS + (2, 0)
ST_UNKNOWN_USER = USM_STATS + (3, 0)
ST_UNKNOWN_ENGINE = USM_STATS + (4, 0)
ST_WRONG_DIGEST = USM_STATS + (5, 0)
ST_DECRYPT_ERROR = USM_STATS + (6, 0)

EOM = ("eom", None)


def _priv_encrypt(method: str, key: bytes, engine_id: bytes, boots: int, etime: int,
                  salt: bytes, data: bytes) -> bytes:
    if method == "verifstream":
        return U.stream_xor(key, engine_id, boots, etime, salt, data)
    if method == "verifstream2":
        return b"VS2-HDR:" + U.stream_xor(key, engine_id, boots, etime, salt, data)
    raise ValueError(method)


def _priv_decrypt(method: str, key: bytes, engine_id: bytes, boots: int, etime: int,
                  salt: bytes, data: bytes) -> bytes:
    if method == "verifstream":
        return U.stream_xor(key, engine_id, boots, etime, salt, data)
    if method == "verifstream2":
        if data[:8] != b"VS2-HDR:":
            raise ValueError("bad header")
        return U.stream_xor(key, engine_id, boots, etime, salt, data[8:])
    raise ValueError(method)


class User:
    def __init__(self, name: bytes, auth_proto: Optional[str] = None, auth_pass: bytes = b"",
                 priv_method: Optional[str] = None, priv_pass: bytes = b"") -> None:
        self.name = name
        self.auth_proto = auth_proto
        self.auth_pass = auth_pass
        self.priv_method = priv_method
        self.priv_pass = priv_pass

    @property
    def level(self) -> int:
        return (1 if self.auth_proto else 0) | (2 if self.priv_method else 0)


class RefAgent:
    def __init__(self, mib: Dict[tuple, S.Value], communities: Optional[Dict[int, set]] = None,
                 users: Optional[List[User]] = None, engine_id: bytes = b"\x80\x00\x1f\x88\x80verif",
                 boots: int = 1, time0: int = 1000) -> None:
        self.set_mib(mib)
        self.communities = communities if communities is not None else {0: {b"public"}, 1: {b"public"}}
        self.users = {u.name: u for u in (users or [])}
        self.engine_id = engine_id
        self.boots = boots
        self.time0 = time0
        self.boot_instant = 0.0
        self.requests: List[dict] = []
        self.stats = {k: 0 for k in ("unsupported_level", "not_in_window", "unknown_user",
                                     "unknown_engine", "wrong_digest", "decrypt_error")}
        self.salt_counter = 0
        self.cap: Optional[int] = None
        self.cap_hit = False
        self.malformed = 0
        self.exchanges = 0
        # behaviour hooks (set by property modules) ---------------------------
        self.successor_fn: Optional[Callable[[tuple, int, dict], Tuple[tuple, S.Value]]] = None
        self.bulk_policy: Callable[[dict], tuple] = lambda req: ("full",)
        self.hook_pdu: Optional[Callable[[dict, dict], Optional[dict]]] = None
        self.lf_for: Callable[[dict], S.LF] = lambda req: S._lf0
        self.delay_for: Callable[[dict], int] = lambda req: 0
        self.hook_v3: Optional[Callable[[dict, dict], dict]] = None
        self.hook_scoped: Optional[Callable[[dict, bytes], bytes]] = None
        self.hook_raw: Optional[Callable[[dict, bytes], Optional[bytes]]] = None
        self.set_normalise: Optional[Callable[[tuple, S.Value], S.Value]] = None
        self.require_exact_level = True
        self.max_bulk_bindings = 400
        #: conformant choice (RFC 3412 7.1 step 3): a Report's scoped PDU carries either this engine's id or the
        #: contextEngineID / contextName of the request it answers (empty for a discovery probe)
        self.report_ctx_echo = False
        #: a proxy / multi-context engine may put yet another (non-empty) contextEngineID into its Reports; the engine id a
        #: client has to adopt is msgAuthoritativeEngineID (RFC 3414 section 4), never this one
        self.report_ctx_other: Optional[bytes] = None
        #: msgMaxSize the agent announces in its own messages (what IT can receive, 484 .. 2^31-1); it says nothing
        #: about the size of the message that carries it
        self.announce_max_size = 65507
        #: speed of the engine clock relative to the simulator's virtual time (clock drift; 0.5 and 0.75 are exact in binary)
        self.rate = 1.0

    # -- MIB ----------------------------------------------------------------------
    def set_mib(self, mib: Dict[tuple, S.Value]) -> None:
        self.mib = dict(mib)
        self.keys = sorted(self.mib)

    def engine_time(self, now: float) -> int:
        return self.time0 + int((now - self.boot_instant) * self.rate)

    def reboot(self, now: float) -> None:
        self.boots += 1
        self.time0 = 0
        self.boot_instant = now

    def clock_step(self, now: float, delta: int) -> None:
        self.time0 = max(0, self.engine_time(now) + delta)
        self.boot_instant = now

    def _view(self, version: int) -> List[tuple]:
        if version == 0:
            return [k for k in self.keys if self.mib[k][0] != "c64"]
        return self.keys

    def successor(self, oid: tuple, version: int = 1) -> Optional[tuple]:
        keys = self._view(version) if version == 0 else self.keys
        i = bisect.bisect_right(keys, oid)
        return keys[i] if i < len(keys) else None

    # -- PDU processing ---------------------------------------------------------
    def _getnext_one(self, oid: tuple, rep: int, req: dict) -> Tuple[tuple, S.Value]:
        if self.successor_fn is not None:
            return self.successor_fn(oid, rep, req)
        nxt = self.successor(oid, req["version"])
        if nxt is None:
            return (oid, EOM)
        return (nxt, self.mib[nxt])

    def process_pdu(self, req: dict) -> Optional[dict]:
        pdu = req["pdu"]
        version = req["version"]
        tag = pdu["tag"]
        vbs = pdu["vbs"]
        rid = pdu["rid"]
        if tag == S.PDU_GET:
            out = []
            for i, (oid, _) in enumerate(vbs):
                if oid in self.mib and not (version == 0 and self.mib[oid][0] == "c64"):
                    out.append((oid, self.mib[oid]))
                elif version == 0:
                    return S.mkpdu(S.PDU_RESPONSE, rid, vbs, es=2, ei=i + 1)
                else:
                    # noSuchInstance if a sibling instance of the same object exists
                    j = bisect.bisect_left(self.keys, oid[:-1]) if oid else 0
                    sib = j < len(self.keys) and self.keys[j][:len(oid) - 1] == oid[:-1] and len(oid) > 1
                    out.append((oid, ("nsi", None) if sib else ("nso", None)))
            return S.mkpdu(S.PDU_RESPONSE, rid, out)
        if tag == S.PDU_GETNEXT:
            out = []
            for i, (oid, _) in enumerate(vbs):
                noid, val = self._getnext_one(oid, 0, req)
                if val == EOM and version == 0:
                    return S.mkpdu(S.PDU_RESPONSE, rid, vbs, es=2, ei=i + 1)
                out.append((noid, val))
            return S.mkpdu(S.PDU_RESPONSE, rid, out)
        if tag == S.PDU_SET:
            out = []
            for oid, val in vbs:
                stored = self.set_normalise(oid, val) if self.set_normalise else val
                self.mib[oid] = stored
                out.append((oid, stored))
            self.keys = sorted(self.mib)
            req["set"] = list(vbs)
            return S.mkpdu(S.PDU_RESPONSE, rid, out)
        if tag == S.PDU_BULK:
            if version == 0:
                return None
            n = max(0, min(pdu["es"], len(vbs)))
            m = max(0, pdu["ei"])
            reps = vbs[n:]
            out = []
            for oid, _ in vbs[:n]:
                out.append(self._getnext_one(oid, 0, req))
            policy = self.bulk_policy(req)
            rows: List[List[Tuple[tuple, S.Value]]] = []
            cur = [oid for oid, _ in reps]
            max_rows = m
            if policy[0] == "fewer" and m > 0:
                max_rows = max(1, min(m, policy[1]))
            if reps:
                for rep in range(max_rows):
                    if len(rows) * len(reps) >= self.max_bulk_bindings:
                        break  # response size limit: a conformant truncation (RFC 3416 4.2.3)
                    row = [self._getnext_one(o, rep, req) for o in cur]
                    rows.append(row)
                    cur = [r[0] for r in row]
                    if policy[0] in ("stop_eom", "partial") and all(r[1] == EOM for r in row):
                        break
            flat = [b for row in rows for b in row]
            if policy[0] == "partial" and rows and len(rows[-1]) > 1:
                keep = 1 + policy[1] % (len(rows[-1]) - 1)
                flat = flat[:len(flat) - len(rows[-1]) + keep]
            req["bulk_rows"] = len(rows)
            return S.mkpdu(S.PDU_RESPONSE, rid, out + flat)
        return None

    # -- datagram entry point -----------------------------------------------------
    def handle(self, data: bytes, src: tuple, now: float) -> List[Tuple[int, bytes]]:
        req: Dict[str, Any] = {"n": len(self.requests), "t": now, "raw": data, "src": src,
                               "verdict": "?", "version": None, "pdu": None, "responses": []}
        self.requests.append(req)
        if self.cap is not None and len(self.requests) > self.cap:
            self.cap_hit = True
            req["verdict"] = "cap"
            return []
        try:
            msg = S.decode_message(data)
        except BerError as exc:
            req["verdict"] = "malformed"
            req["error"] = str(exc)
            self.malformed += 1
            return []
        req["msg"] = msg
        req["version"] = msg["version"]
        if self.hook_raw is not None:
            r = self.hook_raw(req, data)
            if r is not None:
                req["verdict"] = "raw-hook"
                return [(self.delay_for(req), r)]
        if msg["version"] in (0, 1):
            out = self._handle_community(req, msg)
        else:
            out = self._handle_v3(req, msg, now)
        req["responses"] = [r for _, r in out]
        if out:
            self.exchanges += 1
        return out

    def _handle_community(self, req: dict, msg: dict) -> List[Tuple[int, bytes]]:
        version = msg["version"]
        if msg["community"] not in self.communities.get(version, ()):
            req["verdict"] = "bad_community"
            return []
        req["pdu"] = msg["pdu"]
        req["community"] = msg["community"]
        resp = self.process_pdu(req)
        if resp is None:
            req["verdict"] = "no_response"
            return []
        req["model_resp"] = resp
        if self.hook_pdu is not None:
            resp = self.hook_pdu(req, resp)
            if resp is None:
                req["verdict"] = "dropped_by_hook"
                return []
        req["verdict"] = "ok"
        req["resp_pdu"] = resp
        lf = self.lf_for(req)
        raw = S.enc_community_msg(req.get("out_version", version),
                                  req.get("out_community", msg["community"]),
                                  S.enc_pdu(resp, lf), lf)
        return [(self.delay_for(req), raw)]

    # -- v3 -------------------------------------------------------------------------
    def _report(self, req: dict, msg: dict, stat_oid: tuple, counter: str, now: float,
                level: int = 0, user: Optional[User] = None, rid: int = 0) -> List[Tuple[int, bytes]]:
        self.stats[counter] += 1
        req["verdict"] = "report:" + counter
        if not msg["flags"] & 4:
            return []
        pdu = S.mkpdu(S.PDU_REPORT, rid, [(stat_oid, ("c32", self.stats[counter]))])
        ctx_engine, ctx_name = self.engine_id, b""
        if self.report_ctx_echo and msg.get("scoped") is not None:
            ctx_engine, ctx_name = msg["scoped"]["ctx_engine"], msg["scoped"]["ctx_name"]
        elif self.report_ctx_other:
            ctx_engine = self.report_ctx_other
        fields = {"msg_id": msg["msg_id"], "flags": level, "user": user.name if user else b"",
                  "ctx_engine": ctx_engine, "ctx_name": ctx_name, "pdu": pdu,
                  "engine_id": self.engine_id, "boots": self.boots, "time": self.engine_time(now)}
        req["report"] = True
        return [(self.delay_for(req), self.build_v3(req, fields, user, now))]

    def build_v3(self, req: dict, f: dict, user: Optional[User], now: float) -> bytes:
        """Assemble, encrypt and sign a v3 message from a fields dict."""
        if self.hook_v3 is not None:
            f = self.hook_v3(req, f)
        lf = self.lf_for(req)
        level = f["flags"] & 3
        pdu_bytes = f["pdu"] if isinstance(f["pdu"], bytes) else S.enc_pdu(f["pdu"], lf)
        scoped = S.enc_scoped(f["ctx_engine"], f["ctx_name"], pdu_bytes, lf)
        if self.hook_scoped is not None:
            scoped = self.hook_scoped(req, scoped)
        salt = b""
        data = scoped
        if level & 2 and user is not None and user.priv_method:
            self.salt_counter += 1
            salt = self.salt_counter.to_bytes(8, "big")
            pkey = U.localised_key(user.auth_proto or "md5", user.priv_pass, f["engine_id"])
            data = B.enc_str(_priv_encrypt(user.priv_method, pkey, f["engine_id"], f["boots"],
                                           f["time"], salt, scoped), form=lf("spduwrap"))
            req["resp_salt"] = salt
        sec = {"engine_id": f["engine_id"], "boots": f["boots"], "time": f["time"],
               "user": f["user"], "auth": b"\x00" * 12 if level & 1 else b"", "priv": salt}
        raw = S.enc_v3_msg(f["msg_id"], f.get("max_size", self.announce_max_size), f["flags"], 3,
                           S.enc_usm_params(sec, lf), data, lf)
        if level & 1 and user is not None and user.auth_proto:
            akey = f.get("_auth_key") or U.localised_key(user.auth_proto, user.auth_pass, f["engine_id"])
            parsed = S.decode_message(raw)
            off, ln = parsed["auth_off"]
            digest = U.sign(user.auth_proto, akey, raw)
            raw = raw[:off] + digest + raw[off + 12:]
        return raw

    def _handle_v3(self, req: dict, msg: dict, now: float) -> List[Tuple[int, bytes]]:
        if msg["sec_model"] != 3 or msg["sec"] is None:
            req["verdict"] = "bad_sec_model"
            return []
        sec = msg["sec"]
        flags = msg["flags"]
        level = flags & 3
        req["level"] = level
        req["flags"] = flags
        req["sec"] = sec
        if level == 2:
            req["verdict"] = "invalid_flags"
            return []
        rid = 0
        if msg["scoped"] is not None:
            rid = msg["scoped"]["pdu"]["rid"]
        if sec["engine_id"] != self.engine_id:
            req["discovery"] = (sec["engine_id"] == b"" and sec["user"] == b"" and level == 0)
            return self._report(req, msg, ST_UNKNOWN_ENGINE, "unknown_engine", now, rid=rid)
        user = self.users.get(sec["user"])
        if user is None:
            return self._report(req, msg, ST_UNKNOWN_USER, "unknown_user", now, rid=rid)
        req["user"] = user.name
        if level != user.level if self.require_exact_level else (level & ~user.level):
            return self._report(req, msg, ST_UNSUPPORTED_LEVEL, "unsupported_level", now, rid=rid)
        if level & 1:
            akey = U.localised_key(user.auth_proto, user.auth_pass, self.engine_id)
            if not U.verify_raw(user.auth_proto, akey, req["raw"], msg["auth_off"]):
                return self._report(req, msg, ST_WRONG_DIGEST, "wrong_digest", now, rid=rid)
            my_time = self.engine_time(now)
            req["time_delta"] = my_time - sec["time"]
            if sec["boots"] != self.boots or abs(my_time - sec["time"]) > 150 or self.boots == 2**31 - 1:
                return self._report(req, msg, ST_NOT_IN_WINDOW, "not_in_window", now,
                                    level=1, user=user, rid=rid)
        if level & 2:
            if msg["encrypted"] is None:
                return self._report(req, msg, ST_DECRYPT_ERROR, "decrypt_error", now, rid=rid)
            pkey = U.localised_key(user.auth_proto, user.priv_pass, self.engine_id)
            try:
                plain = _priv_decrypt(user.priv_method, pkey, sec["engine_id"], sec["boots"],
                                      sec["time"], sec["priv"], msg["encrypted"])
                scoped = S.decode_scoped_bytes(plain)
            except (BerError, ValueError) as exc:
                req["error"] = str(exc)
                return self._report(req, msg, ST_DECRYPT_ERROR, "decrypt_error", now, rid=rid)
            req["plain_scoped"] = plain
        else:
            if msg["scoped"] is None:
                req["verdict"] = "unexpected_ciphertext"
                return []
            scoped = msg["scoped"]
        req["scoped"] = scoped
        req["pdu"] = scoped["pdu"]
        resp = self.process_pdu(req)
        if resp is None:
            req["verdict"] = "no_response"
            return []
        req["model_resp"] = resp
        if self.hook_pdu is not None:
            resp = self.hook_pdu(req, resp)
            if resp is None:
                req["verdict"] = "dropped_by_hook"
                return []
        req["verdict"] = "ok"
        req["resp_pdu"] = resp
        fields = {"msg_id": msg["msg_id"], "flags": level, "user": user.name,
                  "ctx_engine": scoped["ctx_engine"], "ctx_name": scoped["ctx_name"], "pdu": resp,
                  "engine_id": self.engine_id, "boots": self.boots,
                  "time": self.engine_time(now + self.delay_for(req) / 1024.0)}
        return [(self.delay_for(req), self.build_v3(req, fields, user, now))]


def naive_successor(mib_keys: List[tuple], oid: tuple) -> Optional[tuple]:
    """O(n) model used by the self-test to cross-check the bisect-based lookup."""
    best = None
    for k in mib_keys:
        if k > oid and (best is None or k < best):
            best = k
    return best
