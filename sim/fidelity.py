"""Stub fidelity self-test (not part of any deciding path).

The same scenarios are run once on SimLoop/SimDatagramTransport and once on a real asyncio loop over
127.0.0.1, with the same recording protocol; the sequences of protocol callbacks must be equal.  This
checks the observable contract the simulated transport claims to reproduce: connection_made first,
datagram_received per datagram, error_received for an ICMP refusal (transport stays open), close() ->
later connection_lost(None), abort() likewise, nothing delivered after close, an exception raised by
datagram_received ends up in the loop's exception handler and later datagrams still arrive.
"""
from __future__ import annotations

import asyncio
import socket
from typing import Any, Callable, List, Optional, Tuple

from .loop import SimLoop, SimNetwork


class Rec(asyncio.DatagramProtocol):
    def __init__(self, log: List[tuple], raise_on: Optional[bytes] = None, close_on_data: bool = False) -> None:
        self.log = log
        self.transport: Any = None
        self.raise_on = raise_on
        self.close_on_data = close_on_data

    def connection_made(self, transport: Any) -> None:
        self.transport = transport
        self.log.append(("connection_made",))

    def datagram_received(self, data: bytes, addr: Any) -> None:
        self.log.append(("datagram_received", bytes(data), len(addr) >= 2))
        if self.raise_on is not None and data == self.raise_on:
            raise ValueError("boom")
        if self.close_on_data:
            self.transport.close()

    def error_received(self, exc: Exception) -> None:
        self.log.append(("error_received", type(exc).__name__))

    def connection_lost(self, exc: Optional[Exception]) -> None:
        self.log.append(("connection_lost", type(exc).__name__ if exc else None))


class RealPeer(asyncio.DatagramProtocol):
    """Answers every datagram with the scripted replies (list of (delay_s, bytes))."""

    def __init__(self, script: Callable[[bytes], List[Tuple[float, bytes]]]) -> None:
        self.script = script
        self.transport: Any = None

    def connection_made(self, transport: Any) -> None:
        self.transport = transport

    def datagram_received(self, data: bytes, addr: Any) -> None:
        loop = asyncio.get_event_loop()
        for delay, resp in self.script(data):
            loop.call_later(delay, self.transport.sendto, resp, addr)


class SimPeer:
    def __init__(self, script: Callable[[bytes], List[Tuple[float, bytes]]]) -> None:
        self.script = script

    def handle(self, data: bytes, src: tuple, now: float) -> List[Tuple[int, bytes]]:
        return [(max(0, int(delay * 1024)), resp) for delay, resp in self.script(data)]


STEP = 0.05  # seconds between scripted steps (real time on the real loop, virtual on the simulated one)


def scenarios() -> List[Tuple[str, Callable[..., Any]]]:
    async def reply(loop: Any, connect: Any, log: List[tuple], excs: List[str]) -> None:
        tr, pr = await connect(lambda: Rec(log, close_on_data=True), lambda d: [(STEP, b"pong:" + d)])
        tr.sendto(b"ping")
        await asyncio.sleep(4 * STEP)

    async def no_reply_abort(loop: Any, connect: Any, log: List[tuple], excs: List[str]) -> None:
        tr, pr = await connect(lambda: Rec(log), lambda d: [])
        tr.sendto(b"ping")
        await asyncio.sleep(2 * STEP)
        tr.abort()
        await asyncio.sleep(2 * STEP)

    async def two_replies_second_after_close(loop: Any, connect: Any, log: List[tuple], excs: List[str]) -> None:
        tr, pr = await connect(lambda: Rec(log, close_on_data=True), lambda d: [(STEP, b"one"), (3 * STEP, b"two")])
        tr.sendto(b"ping")
        await asyncio.sleep(6 * STEP)

    async def two_replies_both_delivered(loop: Any, connect: Any, log: List[tuple], excs: List[str]) -> None:
        tr, pr = await connect(lambda: Rec(log), lambda d: [(STEP, b"one"), (2 * STEP, b"two")])
        tr.sendto(b"ping")
        await asyncio.sleep(5 * STEP)
        tr.close()
        tr.close()
        await asyncio.sleep(STEP)

    async def exception_in_callback(loop: Any, connect: Any, log: List[tuple], excs: List[str]) -> None:
        tr, pr = await connect(lambda: Rec(log, raise_on=b"bad"), lambda d: [(STEP, b"bad"), (2 * STEP, b"good")])
        tr.sendto(b"ping")
        await asyncio.sleep(5 * STEP)
        log.append(("loop_exceptions", list(excs)))
        tr.close()
        await asyncio.sleep(STEP)

    async def icmp_refused(loop: Any, connect: Any, log: List[tuple], excs: List[str]) -> None:
        tr, pr = await connect(lambda: Rec(log), None)   # nobody listens on the remote port
        tr.sendto(b"ping")
        await asyncio.sleep(3 * STEP)
        log.append(("is_closing", tr.is_closing()))
        tr.close()
        await asyncio.sleep(STEP)

    return [("reply-then-close", reply), ("no-reply-abort", no_reply_abort),
            ("second-reply-after-close", two_replies_second_after_close), ("two-replies", two_replies_both_delivered),
            ("exception-in-datagram_received", exception_in_callback), ("icmp-refused", icmp_refused)]


def run_real(fn: Any) -> List[tuple]:
    log: List[tuple] = []
    excs: List[str] = []
    loop = asyncio.new_event_loop()
    loop.set_exception_handler(lambda l, ctx: excs.append(type(ctx.get("exception")).__name__))

    async def connect(factory: Any, script: Any) -> Any:
        if script is None:
            s = socket.socket(socket.AF_INET, socket.SOCK_DGRAM)
            s.bind(("127.0.0.1", 0))
            port = s.getsockname()[1]
            s.close()   # the port is closed now: datagrams sent to it are refused
        else:
            ptr, _ = await loop.create_datagram_endpoint(lambda: RealPeer(script), local_addr=("127.0.0.1", 0))
            port = ptr.get_extra_info("sockname")[1]
        return await loop.create_datagram_endpoint(factory, remote_addr=("127.0.0.1", port))

    try:
        loop.run_until_complete(fn(loop, connect, log, excs))
    finally:
        loop.close()
    return log


def run_sim(fn: Any) -> List[tuple]:
    log: List[tuple] = []
    loop = SimLoop()
    net = SimNetwork(loop, {"latency": [1, 1]})
    excs: List[str] = []
    loop.set_exception_handler(lambda l, ctx: excs.append(type(ctx.get("exception")).__name__))

    async def connect(factory: Any, script: Any) -> Any:
        addr = ("10.0.0.2", 161)
        if script is None:
            net.agents.pop(addr, None)
            net.faults = {}
            net.explicit = {("c2a", net.dir_index["c2a"]): [("icmp", 0)]}   # closed port: the OS reports refusal
        else:
            net.add_agent(addr, SimPeer(script))
        return await loop.create_datagram_endpoint(factory, remote_addr=addr)

    try:
        loop.run_until_complete(fn(loop, connect, log, excs))
    finally:
        loop.close()
    return log


def main() -> int:
    fails = 0
    for name, fn in scenarios():
        real = run_real(fn)
        sim = run_sim(fn)
        ok = real == sim
        print("fidelity %-34s %s" % (name, "ok" if ok else "DIFFERS"))
        if not ok:
            fails += 1
            print("   real: %r\n   sim:  %r" % (real, sim))
    print("selftest fidelity: %s" % ("ok" if not fails else "%d scenario(s) differ" % fails))
    return 1 if fails else 0
