"""Harness privacy plug-in: keyed stream transform (not a cipher anyone should use).

Loaded by puresnmp's own plug-in loader through the ``puresnmp_plugins.priv`` namespace.
Every call is recorded so the checks can compare what reached the plug-in with what
reached the wire.
"""
from typing import List, NamedTuple

from sim import refusm

IDENTIFIER = "verifstream"
IANA_ID = -101

CALLS: List[dict] = []
_salt = [0]


class EncryptionResult(NamedTuple):
    encrypted_data: bytes
    priv_params: bytes


def reset() -> None:
    CALLS.clear()
    _salt[0] = 0


def encrypt_data(localised_key, engine_id, engine_boots, engine_time, data):
    _salt[0] += 1
    salt = b"C" + _salt[0].to_bytes(7, "big")
    out = refusm.stream_xor(localised_key, engine_id, engine_boots, engine_time, salt, data)
    CALLS.append({"op": "enc", "key": localised_key, "engine_id": engine_id,
                  "boots": engine_boots, "time": engine_time, "salt": salt,
                  "plain": data, "cipher": out, "method": IDENTIFIER})
    return EncryptionResult(out, salt)


def decrypt_data(localised_key, engine_id, engine_boots, engine_time, salt, data):
    out = refusm.stream_xor(localised_key, engine_id, engine_boots, engine_time, salt, data)
    CALLS.append({"op": "dec", "key": localised_key, "engine_id": engine_id,
                  "boots": engine_boots, "time": engine_time, "salt": salt,
                  "plain": out, "cipher": data, "method": IDENTIFIER})
    return out
