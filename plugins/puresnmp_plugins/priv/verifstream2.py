"""Second harness privacy plug-in: like verifstream but the ciphertext is 8 octets longer
than the plaintext, so nothing may depend on len(ciphertext) == len(plaintext)."""
from typing import NamedTuple

from sim import refusm

from . import verifstream as _base

IDENTIFIER = "verifstream2"
IANA_ID = -102
HDR = b"VS2-HDR:"


class EncryptionResult(NamedTuple):
    encrypted_data: bytes
    priv_params: bytes


def encrypt_data(localised_key, engine_id, engine_boots, engine_time, data):
    _base._salt[0] += 1
    salt = b"D" + _base._salt[0].to_bytes(7, "big")
    out = HDR + refusm.stream_xor(localised_key, engine_id, engine_boots, engine_time, salt, data)
    _base.CALLS.append({"op": "enc", "key": localised_key, "engine_id": engine_id,
                        "boots": engine_boots, "time": engine_time, "salt": salt,
                        "plain": data, "cipher": out, "method": IDENTIFIER})
    return EncryptionResult(out, salt)


def decrypt_data(localised_key, engine_id, engine_boots, engine_time, salt, data):
    if data[:8] != HDR:
        raise ValueError("verifstream2: bad header")
    out = refusm.stream_xor(localised_key, engine_id, engine_boots, engine_time, salt, data[8:])
    _base.CALLS.append({"op": "dec", "key": localised_key, "engine_id": engine_id,
                        "boots": engine_boots, "time": engine_time, "salt": salt,
                        "plain": out, "cipher": data, "method": IDENTIFIER})
    return out
