#!/usr/bin/env python3
"""Confirm a sub-agent's seeded defect and run the checks against it.

  tools/eval_seeded.py <ID> <mutant-dir> [--worktree /tmp/wt/<ID>] [--keep-as seeded/<name>] [--props C01,C02]

Steps (everything in a scratch worktree, never in /repo):
  1. clean worktree: demo.py must exit 0
  2. apply patch.diff: the pinned test suite must pass as on the baseline, demo.py must exit 1
  3. undo the patch
  4. run the registered checks (own property first, then the others unless --props is given) against a
     scratch copy of /repo's current src with the patch applied (tools/run_mutant.py)
  5. with --keep-as, copy patch.diff, demo.py, notes.md and a meta.json into /verif/<keep-as>/
"""
import argparse
import json
import os
import re
import shutil
import subprocess
import sys

ROOT = os.path.dirname(os.path.dirname(os.path.abspath(__file__)))
PY = "/venv/bin/python"
ALL = ["C%02d" % i for i in range(1, 21) if i != 17]


def sh(cmd, cwd=None, env=None, timeout=900):
    p = subprocess.run(cmd, cwd=cwd, env=env, capture_output=True, text=True, timeout=timeout)
    return p.returncode, p.stdout + p.stderr


def main() -> int:
    ap = argparse.ArgumentParser()
    ap.add_argument("prop")
    ap.add_argument("mdir")
    ap.add_argument("--worktree")
    ap.add_argument("--keep-as")
    ap.add_argument("--props")
    ap.add_argument("--tier", default="quick")
    ap.add_argument("--skip-confirm", action="store_true")
    args = ap.parse_args()
    wt = args.worktree or "/tmp/wt/%s" % args.prop
    patch = os.path.join(args.mdir, "patch.diff")
    demo = os.path.join(args.mdir, "demo.py")
    env = dict(os.environ, PYTHONPATH=os.path.join(wt, "src"))
    meta = {"property": args.prop, "source": "independent sub-agent given only the property text and a scratch worktree",
            "ran": []}
    if not args.skip_confirm:
        rc, out = sh(["git", "-C", wt, "status", "--porcelain"])
        if out.strip():
            print("worktree not clean:", out)
            return 2
        rc0, out0 = sh([PY, demo], cwd=args.mdir, env=env, timeout=120)
        meta["ran"].append("clean tree: demo.py exit %d" % rc0)
        rc, out = sh(["git", "-C", wt, "apply", os.path.abspath(patch)])
        if rc != 0:
            print("patch does not apply:", out)
            return 2
        try:
            rct, outt = sh([PY, "-m", "pytest", "-q", "-p", "no:cacheprovider", "--timeout=900"], cwd=wt, env=env)
            tail = [l for l in outt.strip().splitlines() if re.search(r"\d+ passed", l)]
            meta["ran"].append("patched tree: test suite -> %s" % (tail[-1].strip() if tail else "exit %d" % rct))
            rc1, out1 = sh([PY, demo], cwd=args.mdir, env=env, timeout=120)
            meta["ran"].append("patched tree: demo.py exit %d" % rc1)
        finally:
            sh(["git", "-C", wt, "checkout", "--", "."])
            sh(["git", "-C", wt, "clean", "-fdq"])
        ok = rc0 == 0 and rc1 == 1 and rct == 0 and tail and "174 passed" in tail[-1]
        print("confirm: demo clean=%d patched=%d tests=%s -> %s" % (rc0, rc1, tail[-1].strip() if tail else rct,
                                                                    "CONFIRMED" if ok else "REJECTED"))
        if not ok:
            print(out1[-600:])
            return 3
    props = args.props.split(",") if args.props else [args.prop] + [p for p in ALL if p != args.prop]
    caught = []
    details = {}
    for pid in props:
        rc, out = sh([sys.executable, os.path.join(ROOT, "tools", "run_mutant.py"), os.path.abspath(patch), pid,
                      "--repo", "/repo", "--tier", args.tier], timeout=3600)
        hit = "CAUGHT-BY: %s" % pid in out
        clause = [l.strip() for l in out.splitlines() if "clause:" in l]
        harness = [l.strip() for l in out.splitlines() if "HARNESS" in l]
        details[pid] = {"caught": hit, "clauses": sorted(set(clause))[:4], "harness": harness[:2]}
        print("  %s: %s %s %s" % (pid, "CAUGHT" if hit else "missed", sorted(set(clause))[:3], harness[:1]))
        if hit:
            caught.append(pid)
            if pid == args.prop and not args.props:
                break
    meta["caught_by"] = caught
    meta["check_details"] = details
    meta["ran"].append("checks (%s tier, VERIF_SEED=0) against a scratch copy of src with the patch applied: caught by %s" % (
        args.tier, ",".join(caught) or "none"))
    print("RESULT %s %s caught_by=%s" % (args.prop, args.mdir, ",".join(caught) or "NONE"))
    if args.keep_as:
        dst = os.path.join(ROOT, args.keep_as)
        os.makedirs(dst, exist_ok=True)
        for f in ("patch.diff", "demo.py", "notes.md"):
            if os.path.exists(os.path.join(args.mdir, f)):
                shutil.copy(os.path.join(args.mdir, f), os.path.join(dst, f))
        notes = ""
        if os.path.exists(os.path.join(args.mdir, "notes.md")):
            notes = open(os.path.join(args.mdir, "notes.md")).read()
        meta["needs"] = notes.strip()[:1500]
        with open(os.path.join(dst, "meta.json"), "w") as fh:
            json.dump(meta, fh, indent=1)
    return 0 if caught else 1


if __name__ == "__main__":
    sys.exit(main())
