#!/bin/bash
# usage: tools/soak.sh <first-seed> <last-seed> [tier] [props...]
# Runs the checks for many master seeds (evidence and replays go to a scratch directory, never to /verif/evidence).
# Prints one line per (seed, property) that did not exit 0, and a summary.
cd "$(dirname "$0")/.."
first=$1; last=$2; tier=${3:-quick}; shift 3
props=${@:-C01 C02 C03 C04 C05 C06 C07 C08 C09 C10 C11 C12 C13 C14 C15 C16 C18 C19 C20}
out=${SOAK_DIR:-/dev/shm/verif-soak-$$}
mkdir -p $out/evidence $out/replays
bad=0; n=0
for s in $(seq $first $last); do
  for p in $props; do
    VERIF_SEED=$s VERIF_EVIDENCE_DIR=$out/evidence VERIF_REPLAY_DIR=$out/replays /venv/bin/python sim/check.py $p --tier $tier > $out/log.$p.$s 2>&1
    rc=$?
    n=$((n+1))
    if [ $rc -ne 0 ]; then bad=$((bad+1)); echo "SOAK-ALARM seed=$s property=$p exit=$rc"; grep -E "VIOLATION|clause|detail|HARNESS" $out/log.$p.$s | head -6; cp $out/log.$p.$s /tmp/soak-alarm.$p.$s.log; fi
    rm -f $out/log.$p.$s
  done
  echo "seed $s done ($n runs, $bad alarms)"
done
echo "SOAK-SUMMARY runs=$n alarms=$bad tier=$tier seeds=$first..$last"
[ -z "$SOAK_KEEP" ] && rm -rf $out
exit $([ $bad -eq 0 ] && echo 0 || echo 1)
