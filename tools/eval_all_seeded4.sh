#!/bin/bash
# round 2: tools/eval_all_seeded2.sh C01 ...   (evaluates /tmp/wt-out4/<ID>/m*/ and keeps confirmed ones under seeded/<ID>-r2m<k>)
cd "$(dirname "$0")/.."
mkdir -p /tmp/seeded-results4
for id in "$@"; do
  for d in /tmp/wt-out4/$id/m*/; do
    m=$(basename $d)
    python3 tools/eval_seeded.py $id $d --keep-as seeded/$id-r4$m > /tmp/seeded-results4/$id-$m.log 2>&1
    tail -1 /tmp/seeded-results4/$id-$m.log
  done
done
