#!/bin/bash
# round 2: tools/eval_all_seeded2.sh C01 ...   (evaluates /tmp/wt-out2/<ID>/m*/ and keeps confirmed ones under seeded/<ID>-r2m<k>)
cd "$(dirname "$0")/.."
mkdir -p /tmp/seeded-results2
for id in "$@"; do
  for d in /tmp/wt-out2/$id/m*/; do
    m=$(basename $d)
    python3 tools/eval_seeded.py $id $d --keep-as seeded/$id-r2$m > /tmp/seeded-results2/$id-$m.log 2>&1
    tail -1 /tmp/seeded-results2/$id-$m.log
  done
done
