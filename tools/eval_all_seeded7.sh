#!/bin/bash
# round 7: tools/eval_all_seeded7.sh C01 ...   (evaluates /tmp/wt-out7/<ID>/m*/ and keeps confirmed ones under seeded/<ID>-r7m<k>)
cd "$(dirname "$0")/.."
mkdir -p /tmp/seeded-results7
for id in "$@"; do
  for d in /tmp/wt-out7/$id/m*/; do
    m=$(basename $d)
    python3 tools/eval_seeded.py $id $d --keep-as seeded/$id-r7$m > /tmp/seeded-results7/$id-$m.log 2>&1
    tail -1 /tmp/seeded-results7/$id-$m.log
  done
done
