#!/venv/bin/python
"""Find, minimise and store a failing plan (used to create regression / known-finding examples).

  VERIF_REPO_SRC=<tree> tools/find_example.py <ID> <out.json> [--want TRIGGER] [--clause CLASS] [--tier quick] [--max N]
"""
import argparse
import os
import sys

ROOT = os.path.dirname(os.path.dirname(os.path.abspath(__file__)))
sys.path.insert(0, ROOT)
from sim import jsonx, runner  # noqa: E402


def main() -> int:
    ap = argparse.ArgumentParser()
    ap.add_argument("prop")
    ap.add_argument("out")
    ap.add_argument("--want")
    ap.add_argument("--avoid", action="append", default=[])
    ap.add_argument("--clause")
    ap.add_argument("--tier", default="quick")
    ap.add_argument("--max", type=int, default=5000)
    ap.add_argument("--seed", type=int, default=0)
    a = ap.parse_args()
    prop = runner.load_prop(a.prop.upper())
    for i in range(min(a.max, prop.total(a.tier))):
        plan = runner.make_plan(prop, a.tier, a.seed, i)
        out = runner.safe_execute(prop, plan)
        if out.get("harness_error"):
            print(out["harness_error"])
            return 2
        v = out.get("violation")
        if not v:
            continue
        if a.clause and runner.clause_class(v["clause"]) != a.clause:
            continue
        if a.want and a.want not in out["triggers"]:
            continue
        if any(t in out["triggers"] for t in a.avoid):
            continue

        class P:  # minimise while keeping the wanted trigger
            pass
        mini = runner.Minimiser(prop, runner.clause_class(v["clause"]), budget=400)
        orig_fails = mini.fails

        def fails(p, req, _of=orig_fails):
            o = _of(p, False)
            if o is None:
                return None
            if a.want and a.want not in o["triggers"]:
                return None
            if any(t in o["triggers"] for t in a.avoid):
                return None
            return o
        mini.fails = fails
        mplan, mout = mini.run(plan, out)
        body = {"property": a.prop.upper(), "plan": mplan, "clause": mout["violation"]["clause"],
                "detail": mout["violation"].get("detail", ""), "digest": mout.get("digest", ""),
                "triggers": mout.get("triggers", []), "note": "found at index %d seed %d tier %s" % (i, a.seed, a.tier)}
        with open(a.out, "w") as fh:
            fh.write(jsonx.dumps(body, indent=1, sort_keys=True))
        print("index", i, mout["violation"], mout["triggers"])
        if hasattr(prop, "describe"):
            print(prop.describe(mplan))
        return 0
    print("nothing found")
    return 1


if __name__ == "__main__":
    sys.exit(main())
