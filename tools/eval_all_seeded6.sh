#!/bin/bash
# round 6: tools/eval_all_seeded6.sh C01 ...   (evaluates /tmp/wt-out6/<ID>/m*/ and keeps confirmed ones under seeded/<ID>-r6m<k>)
cd "$(dirname "$0")/.."
mkdir -p /tmp/seeded-results6
for id in "$@"; do
  for d in /tmp/wt-out6/$id/m*/; do
    m=$(basename $d)
    python3 tools/eval_seeded.py $id $d --keep-as seeded/$id-r6$m > /tmp/seeded-results6/$id-$m.log 2>&1
    tail -1 /tmp/seeded-results6/$id-$m.log
  done
done
