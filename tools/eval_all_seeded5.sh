#!/bin/bash
# round 5: tools/eval_all_seeded5.sh C01 ...   (evaluates /tmp/wt-out5/<ID>/m*/ and keeps confirmed ones under seeded/<ID>-r5m<k>)
cd "$(dirname "$0")/.."
mkdir -p /tmp/seeded-results5
for id in "$@"; do
  for d in /tmp/wt-out5/$id/m*/; do
    m=$(basename $d)
    python3 tools/eval_seeded.py $id $d --keep-as seeded/$id-r5$m > /tmp/seeded-results5/$id-$m.log 2>&1
    tail -1 /tmp/seeded-results5/$id-$m.log
  done
done
