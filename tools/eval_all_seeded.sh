#!/bin/bash
# usage: tools/eval_all_seeded.sh C01 C03 ...   (evaluates /tmp/wt-out/<ID>/m*/ and keeps confirmed ones under seeded/)
cd "$(dirname "$0")/.."
mkdir -p /tmp/seeded-results
for id in "$@"; do
  for d in /tmp/wt-out/$id/m*/; do
    m=$(basename $d)
    python3 tools/eval_seeded.py $id $d --keep-as seeded/$id-$m > /tmp/seeded-results/$id-$m.log 2>&1
    tail -1 /tmp/seeded-results/$id-$m.log
  done
done
