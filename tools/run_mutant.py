#!/usr/bin/env python3
"""Run checks against a scratch copy of /repo/src with a patch applied (sensitivity testing).

  tools/run_mutant.py <patch.diff> <PID>[,<PID>...] [--tier quick] [--seed N]

The copy lives under /dev/shm and is removed afterwards; /repo is never touched.
Exit status: 0 if at least one of the listed checks reported a VIOLATION (mutant caught), 1 otherwise.
"""
import argparse
import os
import shutil
import subprocess
import sys
import tempfile

ROOT = os.path.dirname(os.path.dirname(os.path.abspath(__file__)))


def main() -> int:
    ap = argparse.ArgumentParser()
    ap.add_argument("patch")
    ap.add_argument("props")
    ap.add_argument("--tier", default="quick")
    ap.add_argument("--seed", default="0")
    ap.add_argument("--repo", default="/repo")
    args = ap.parse_args()
    scratch = tempfile.mkdtemp(prefix="verif-mut-", dir="/dev/shm")
    try:
        shutil.copytree(os.path.join(args.repo, "src"), os.path.join(scratch, "src"))
        r = subprocess.run(["patch", "-p1", "-s", "-d", scratch, "-i", os.path.abspath(args.patch)],
                           capture_output=True, text=True)
        if r.returncode != 0:
            print("PATCH-FAILED", r.stdout, r.stderr)
            return 2
        caught = []
        for pid in args.props.split(","):
            env = dict(os.environ, VERIF_REPO_SRC=os.path.join(scratch, "src"), VERIF_SEED=args.seed,
                       VERIF_EVIDENCE_DIR=os.path.join(scratch, "evidence"),
                       VERIF_REPLAY_DIR=os.path.join(scratch, "replays"))
            p = subprocess.run(["/venv/bin/python", os.path.join(ROOT, "sim", "check.py"), pid, "--tier", args.tier],
                               capture_output=True, text=True, env=env, cwd=ROOT)
            lines = [l for l in p.stdout.splitlines() if l.startswith(("VIOLATION", "  clause", "  detail", "HARNESS", "property="))]
            print("%s exit=%d" % (pid, p.returncode))
            for l in lines[:8]:
                print("   " + l[:300])
            if p.returncode == 1 and "VIOLATION property=" in p.stdout:
                caught.append(pid)
            elif p.returncode != 0:
                print("   (exit %d without a VIOLATION line: %s)" % (p.returncode, (p.stderr or p.stdout)[-300:].replace("\n", " | ")))
        print("CAUGHT-BY: %s" % (",".join(caught) or "none"))
        return 0 if caught else 1
    finally:
        shutil.rmtree(scratch, ignore_errors=True)


if __name__ == "__main__":
    sys.exit(main())
