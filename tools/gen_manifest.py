#!/usr/bin/env python3
"""Regenerate /verif/MANIFEST.json from the table below (kept in one place on purpose)."""
import json
import os

ROOT = os.path.dirname(os.path.dirname(os.path.abspath(__file__)))
PY = "/venv/bin/python"

TRUST = ("Trusted base: the reference agent/codec/USM in /verif/sim (validated by `check.py selftest reference`: RFC 3414 A.3 "
         "vectors, the repository's captured packets, codec round trips, naive GETNEXT model), the SimDatagramTransport stub "
         "(contract compared with real loopback sockets by `selftest fidelity`), CPython's asyncio task/timer code. "
         "Sampling, not proof: a clean run is evidence for the explored plans only.")

CHECKS = {
    "C01": ("exploration", "6 C01",
            "Seeded search over generated agent databases, root lists (all listing orders for <=3 roots), protocols/levels and "
            "lossy networks; the MIB is the reference model (set equality, exactly-once, values, ascending order, request bound, "
            "order independence). Right level: the input space is unbounded, the next request depends on the previous answer.",
            "deterministic simulation: real client vs. reference agent on a virtual-time loop, seeded plans, model oracle, ddmin replay"),
    "C02": ("exploration", "6 C02",
            "Seeded search as C01 plus bulk size and the agent's per-response GETBULK truncation policy (peer nondeterminism drawn "
            "from the plan), optionally after an earlier bulk walk of a nested root on the same client; differential against a "
            "twin GETNEXT walk of the same plan and against the MIB model.",
            "deterministic simulation: bulk walk vs. twin GETNEXT walk and MIB model under seeded agent truncation policies and loss"),
    "C03": ("exploration", "6 C03",
            "Seeded search over byzantine agents (sorted successor overridden by explicit deviations: same/smaller OID, cycles, "
            "leaving and re-entering the subtree, endOfMibView anywhere) x walk/multiwalk/bulkwalk/table/bulktable x strict/lenient; "
            "optionally after the same operation has been run once on the client; non-termination is a deterministic verdict at a "
            "fixed request number (agent request cap), no wall clock involved.",
            "deterministic simulation: real client vs. scripted adversarial agent, request-cap liveness verdict, request-log oracle"),
    "C04": ("exploration", "6 C04",
            "Seeded search over databases, operation sequences, OID lists and protocol levels, with one agent count fault "
            "(added / dropped binding, over-long or short GETBULK) per run; oracle = the agent's request log (what was asked) "
            "and the response it actually sent (what must come back, in order); repeated calls hand the same argument objects to the client.",
            "deterministic simulation: operation sequences vs. reference agent with injected binding-count faults, log oracle"),
    "C05": ("exploration", "6 C05",
            "Invariant on every datagram reaching the recording sender seam: an independent strict RFC 1157/3416/3412 decoder "
            "must read back the intent record (version, community or v3 header/security parameters/context, PDU type, "
            "request-id = a clock reading (folded into Integer32 for wall clocks after 2038), zero error fields or bulk parameters, OIDs and typed SET values). The simulator "
            "contributes the wall clock (request ids across Integer32) and the discovery reply; there is no fault dimension.",
            "deterministic simulation: sender-seam invariant checked by an independent BER/SNMP decoder over seeded argument sweeps"),
    "C06": ("exploration", "6 C06",
            "The reference agent is an independent encoder whose legal length-form choice per TLV is drawn from the plan "
            "(peer nondeterminism); values over full ranges must reach the caller with type and value intact, and every "
            "response seen is decoded/re-encoded by the code under test and compared as content by the independent decoder.",
            "deterministic simulation: agent-side encoding nondeterminism (length forms) seeded per TLV, value and re-encoding oracle"),
    "C07": ("exploration", "6 C07",
            "Seeded search over operation x wall-clock behaviour (tied, constant, advancing on every read, jumping; dates up to and after 2038) x agent "
            "behaviour at the k-th request (echo, id+-1, arbitrary, previous id, foreign community/version, foreign discovery "
            "msgID; optionally with error-status noSuchName); echo must succeed exactly as the tied-clock twin run, everything else must "
            "raise and must never end an operation normally.",
            "deterministic simulation: simulated wall clock (stepping/jumping) and id-perturbing agent, twin-run oracle"),
    "C08": ("exploration", "6 C08",
            "The matrix status x index class x binding list x operation x protocol (20 976 cells) is enumerated completely in "
            "both tiers against a scripted agent (thorough: every status -2..63 and the INTEGER length boundaries, 67 000+ "
            "cells); oracle is an independent RFC 3416 status->exception table, error_status and offending_oid.",
            "deterministic simulation: scripted error-status agent, full matrix enumeration, RFC table oracle"),
    "C09": ("fault_enumeration", "6 C09",
            "On-path attacker as a network rewrite fault: for each scenario the exchange is re-run from the identical state "
            "once per transformation of the targeted authentic response - every single-bit flip (complete enumeration) and 40 "
            "structural forgeries carrying different data (downgrades, digest variants incl. a sweep of 1-octet digests, wrong "
            "keys/users/engines, foreign msgIDs, other PDU types, Reports with empty bindings / error status / clock ahead). "
            "Outcome must be an exception or exactly the authentic result; Reports only an exception; the NEXT request on the "
            "same client must be unaffected by the refused forgery.",
            "deterministic simulation: exhaustive per-bit and structural rewrite faults on authentic responses, exact twin runs"),
    "C10": ("exploration", "6 C10",
            "Seeded sweep of passwords (every length 1..300), engine ids, operations and payload lengths (message / scoped-PDU / "
            "PDU content lengths through 100..300, measured per layer) against an independent RFC 3412/3414 agent whose verdict "
            "on every request (flags, parameters, digest over the datagram as sent, decryption, usmStats) and whose authentic "
            "minimal-BER responses are the oracle; pass-phrases that look like hex keys/numbers, engine ids with zero runs, "
            "an earlier user with the same pass-phrases and the other hash on the same engine.",
            "deterministic simulation: independent USM agent verdicts over seeded password/engine/length sweeps"),
    "C11": ("exploration", "6 C11",
            "Harness privacy plug-ins (a length-preserving and a length-changing keyed stream transform) are loaded by puresnmp's "
            "own loader and record every call; wire bytes, plug-in arguments and the independently derived localised key are "
            "compared per exchange, with a slow agent so that response time/salt differ from the request's.",
            "deterministic simulation: recording privacy plug-in at the plug-in seam, wire vs. plug-in vs. reference-key oracle"),
    "C12": ("exploration", "6 C12",
            "Seeded histories on one client interleaving requests with virtual time passing (seconds to 30 days), agent reboots "
            "(crash/restart of the only durable state, snmpEngineBoots), clock steps and slow answers, at all security levels, "
            "agent clock drift, replayed old responses, credential-family round trips, a first discovery exchange that fails "
            "(lost / refused reply) followed by rediscovery; the reference agent's time-window verdict over the history is "
            "the oracle, with bounded recovery after a discontinuity instead of impossible demands.",
            "deterministic simulation: virtual time (years per run), agent reboot/clock-step faults, history oracle with bounded recovery"),
    "C13": ("fault_enumeration", "6 C13",
            "All 2 800 sequences of per-attempt outcomes {reply in time (possibly zero-length), no reply, late reply, two replies, "
            "ICMP/OS error (4 errno kinds), fatal socket error, send queue full/EAGAIN} for retries 1..4 are enumerated against "
            "the shipped send_udp / SNMPClientProtocol on the simulated transport under virtual time (quick: x 4 timeouts; "
            "thorough: x 8 latency seeds too; directly and through Client.get; wall clock jumping in half of the runs); oracle: "
            "transmission count, payload identity, exact retry spacing and return/Timeout instants in virtual time, every socket "
            "closed afterwards; also IPv6 peers, slow socket setup, caller cancellation, another open event loop, a second "
            "call in flight at the same time.",
            "deterministic simulation: exhaustive per-attempt fault sequences on a simulated datagram transport, virtual-time arithmetic oracle"),
    "C14": ("exploration", "6 C14",
            "2-6 operations (twelve kinds, overlapping walks/tables) started together on one shared client or on 2-3 clients on "
            "one loop, v2c and v3 authPriv (concurrent discovery); the schedule is the latency of every response datagram: all "
            "k! answer orders for groups of single-exchange operations (Lehmer-coded run index), seeded orders for groups with "
            "walks, plus loss/dup/late replies; wall clock tied or advancing on every reading (different ids in flight); one "
            "operation may be abandoned by its caller (wait_for) mid-flight; oracle: each outcome equals its solo twin run, "
            "agents saw only their own client's credentials, no request rejected, client configuration unchanged and carried "
            "by every sender call.",
            "deterministic simulation: schedule exploration through per-datagram delivery times (complete permutations for small groups), solo-twin oracle"),
    "C15": ("exploration", "6 C15",
            "All eleven wrapper operations over databases holding every value type; the wrapper call and the raw call see "
            "byte-identical exchanges (exact twin through determinism); oracle: deep type walk (no x690 type anywhere, keys "
            "included) and equality with an independent pythonisation of the agent's typed values; one long-lived wrapper per "
            "client, optionally after fetching another table; stalling / reordering agents.",
            "deterministic simulation: wrapper vs. raw twin run against the reference agent, independent pythonisation oracle"),
    "C16": ("exploration", "6 C16",
            "Seeded conceptual tables (columns, sparsity, 0-12 rows, 1-4 index components incl. mixed arity, neighbours before/"
            "after, adjacent second table, end of view), bulk sizes and per-response GETBULK truncation policies, optional loss; "
            "table(entry), bulktable(table) and both wrapper variants must each equal the generated table.",
            "deterministic simulation: generated table as reference model, four fetch variants under seeded agent truncation and loss"),
    "C18": ("exploration", "6 C18",
            "Seeded nested histories (depth <= 4) of configure / reconfigure blocks left normally, by an exception or by a failing "
            "request / requests / requests into a partition / unknown settings over timeout, retries, credentials of the same and "
            "of another family, context; snapshot-stack model checked after every step against client.config, against what the "
            "recording sender seam saw and against the datagram decoded by the independent decoder; the model tracks which "
            "message-processing model each snapshot owns (no rediscovery after leaving a block); partition: Timeout after "
            "exactly retries x timeout virtual seconds.",
            "deterministic simulation: operation histories vs. snapshot-stack model, sender-seam and wire oracle, partition fault under virtual time"),
    "C19": ("exploration", "6 C19",
            "The shipped register_trap_callback/listen/SNMPTrapReceiverProtocol bind a simulated socket; emitters (IPv4 and IPv6 "
            "peers) send reference-encoded SNMPv2-Traps mixed with foreign-community, truncated, garbage, bit-flipped and "
            "other-version datagrams through a network that loses, duplicates and reorders; slow and raising callbacks; oracle: "
            "exactly one callback per arrival of a well-formed matching trap with origin and bindings, none for foreign/"
            "malformed ones, listener alive afterwards (counted-work budget for the whole run).",
            "deterministic simulation: trap emitters over a lossy/duplicating/reordering simulated network, per-arrival delivery oracle"),
    "C20": ("fault_enumeration", "6 C20",
            "For each base message (v1/v2c/v3 responses at all levels incl. mid-walk GETNEXT/GETBULK answers, discovery replies, "
            "USM reports, a trap) produced in simulation: every single-bit flip, every truncation, every octet value at every "
            "TLV header position (16-value dictionary in quick), seeded pairs/triples, indefinite lengths, random strings up to "
            "65507 octets, deep nesting, well-formed oversized and degenerate (empty) messages, long-lived clients/listeners "
            "(300 exchanges, retained memory must not grow), applied to one datagram or to "
            "every later datagram of the operation, are delivered by the rewrite fault (before authentication on the wire, after authentication by the agent "
            "mutating the scoped PDU before encrypting/signing); oracle: counted work (function entries, calls, loop jumps via "
            "sys.monitoring) <= A + 200 x len, traced memory <= 16 MiB + 64 x len, outcome a result or an exception, and the "
            "same client's next request behaves as in the unmutated run.",
            "deterministic simulation: exhaustive datagram-corruption faults with deterministic work/memory accounting and follow-up usability check"),
}

NOT_APPLICABLE = {
    "C17": "pure functions of one value (constructors, pythonize, bytes/decode round trips): no exchange, peer, clock, schedule, "
           "I/O or fault for a simulator to own; its decode-side consequences are reached through C06 and C15",
}

PENDING_REASON = "check not built yet in this tree (work in progress; see DESIGN.md section 6 for the planned check)"


def main() -> None:
    props = [json.loads(l)["id"] for l in open(os.path.join(ROOT, "properties.jsonl"))]
    checks = []
    for pid in props:
        if pid not in CHECKS:
            continue
        level, ref, text, technique = CHECKS[pid]
        checks.append({
            "property_id": pid,
            "quick_cmd": "%s sim/check.py %s --tier quick" % (PY, pid),
            "thorough_cmd": "%s sim/check.py %s --tier thorough" % (PY, pid),
            "evidence_file": "/verif/evidence/%s.json" % pid,
            "replay_cmd_template": "%s sim/check.py %s --replay {path}" % (PY, pid),
            "engine": "sim",
            "level_claimed": {"category": level, "text": text, "design_ref": "DESIGN.md section " + ref},
            "level_note": TRUST,
            "technique": technique,
        })
    na = []
    for pid in props:
        if pid in CHECKS:
            continue
        na.append({"property_id": pid, "reason": NOT_APPLICABLE.get(pid, PENDING_REASON)})
    manifest = {
        "version": 1,
        "setup_cmd": "%s -m compileall -q sim plugins tools && %s sim/check.py selftest reference" % (PY, PY),
        "hooks": {
            "guard": "PURESNMP_VERIF",
            "enable": "no source hook exists: every seam the simulator needs is already in the code "
                      "(Client(sender=), loop.create_datagram_endpoint, puresnmp.util.time, the plug-in namespaces); "
                      "checks import puresnmp from $VERIF_REPO_SRC (default /repo/src, the working tree)",
            "baseline_off_cmd": "cd /repo && /venv/bin/python -m pytest -ra -q -p no:cacheprovider --timeout=900 --continue-on-collection-errors",
            "source_commits": [],
            "add_only": True,
        },
        "engines": [{
            "name": "sim", "path": "/verif/sim", "serves_properties": sorted(CHECKS),
            "kind_free_text": "deterministic simulation with fault injection: virtual-time asyncio loop, simulated UDP fabric, "
                              "reference SNMP agent, seeded plans, delta-debugging minimiser, replay files",
        }],
        "checks": checks,
        "not_applicable": na,
        "notes": "Exit codes: 0 held, 1 VIOLATION (replay file printed), 2 HARNESS-ERROR. VERIF_SEED selects the explored plans; "
                 "VERIF_JOBS the worker count; VERIF_REPO_SRC the tree under test (default /repo/src). Known findings: "
                 "/verif/known_findings.json (2 open entries sharing one root cause in the external x690 package, C19/C20; "
                 "%d fixed entries (%d fix: commits) whose minimised plans under /verif/regressions are re-run by the checks). Self-tests: " % _fixed_counts() +
                 "`sim/check.py selftest reference|determinism|evidence|fidelity|sensitivity`. Seeded defects from independent "
                 "sub-agents and the checks that catch them: /verif/seeded, DESIGN.md section 13.",
    }
    with open(os.path.join(ROOT, "MANIFEST.json"), "w") as fh:
        json.dump(manifest, fh, indent=1)
        fh.write("\n")


def _fixed_counts():
    k = json.load(open(os.path.join(ROOT, "known_findings.json")))
    fixed = [f for f in k["findings"] if f["status"] == "fixed"]
    return len(fixed), len(set(f["fix_commit"] for f in fixed))


if __name__ == "__main__":
    main()
