#!/usr/bin/env python3
"""Re-run checks against an already confirmed seeded defect and update its meta.json.

  tools/reeval_seeded.py <seeded-name> <PID>[,<PID>...] [--patch <file>]   (--patch: replace patch.diff, keeping the
                                                                             original as patch.orig.diff)
"""
import json
import os
import shutil
import subprocess
import sys

ROOT = os.path.dirname(os.path.dirname(os.path.abspath(__file__)))


def main() -> int:
    name, pids = sys.argv[1], sys.argv[2].split(",")
    d = os.path.join(ROOT, "seeded", name)
    if "--patch" in sys.argv:
        new = sys.argv[sys.argv.index("--patch") + 1]
        if not os.path.exists(os.path.join(d, "patch.orig.diff")):
            shutil.copy(os.path.join(d, "patch.diff"), os.path.join(d, "patch.orig.diff"))
        shutil.copy(new, os.path.join(d, "patch.diff"))
    meta = json.load(open(os.path.join(d, "meta.json")))
    caught = []
    for pid in pids:
        p = subprocess.run([sys.executable, os.path.join(ROOT, "tools", "run_mutant.py"), os.path.join(d, "patch.diff"), pid,
                            "--repo", "/repo"], capture_output=True, text=True)
        out = p.stdout + p.stderr
        hit = "CAUGHT-BY: %s" % pid in out
        clause = sorted(set(l.strip() for l in out.splitlines() if "clause:" in l))[:4]
        meta.setdefault("check_details", {})[pid] = {"caught": hit, "clauses": clause,
                                                     "harness": [l.strip() for l in out.splitlines() if "HARNESS" in l][:2]}
        print("  %s: %s %s" % (pid, "CAUGHT" if hit else "missed", clause[:3]))
        if hit:
            caught.append(pid)
    prev = [c for c in meta.get("caught_by", []) if c not in pids]
    meta["caught_by"] = caught + prev
    meta.setdefault("ran", []).append("re-run after the checks/the tree changed (quick tier, VERIF_SEED=0, /repo HEAD + patch): %s -> caught by %s" % (
        ",".join(pids), ",".join(caught) or "none"))
    json.dump(meta, open(os.path.join(d, "meta.json"), "w"), indent=1)
    print("RESULT %s caught_by=%s" % (name, ",".join(meta["caught_by"]) or "NONE"))
    return 0 if caught else 1


if __name__ == "__main__":
    sys.exit(main())
